"""C16 — damaged files are detected, never served as data (engine E6: damage sweeps).

For databases built from generated workloads through the E2 commands of the harness, every file of
the closed database (tables, commit-log segments, value-log files, manifest) is altered in a copy
of the directory (one bit flipped, one byte set to 0x00 / 0xff / incremented, or the file cut
short); the copy is opened by the real engine inside a child process that is driven in lock step
(a silent child = hang, a dead child = abort/crash, `PANIC:` = caught unwinding panic) and the full
read set is run.  Outcome classes: SAME / ERROR / PREFIX (commit log only) are allowed; DIFFERENT,
PANIC, CRASH, HANG are failing inputs.

The region maps that stratify the offsets are computed by the extracted Coq model
(Codec/Regions.v, `rg` commands of driver/skv_driver) from the layout the implementation reports
(facade surrealkv::verif::damage, `dmg layout`); model and implementation must agree on every block
position and the model's regions must tile the real file length exactly.

Directed damage differential of the value log behind the block cache (finding F41, repaired): tools/vlib/c11.py
cut_differential — a value log of its own is appended to, closed, cut at an entry boundary / inside an entry / inside
the header, opened again, appended to from the cut position; the new pointers are read (fills the block cache), then
the OLD pointers: crate vs extracted Lsm/Vlog.v (generated cache rule) vs VLog::get's file path played in python.  An
old pointer that is answered with the value of the entry now at its offset is a failing input of class
vlog_truncated_wrong_data (the class of F41: listed as fixed, so it is reported as a VIOLATION).
"""
import json, os, re, select, shutil, subprocess, sys, time, threading
from concurrent.futures import ThreadPoolExecutor
from . import common as C

PID = "C16"
PARAM_SECTIONS = ["c16", "wal", "table", "vlog"]
MODEL_TARGETS = ["theories/Codec/Regions.vo", "theories/Lsm/VlogInst.vo"]
TRUSTED = [
    "E6 (tools/vlib/c16.py + harness/src/dmg.rs): copies of closed database directories on /dev/shm, byte alterations applied by the harness, "
    "child process watched in lock step with a per-case timeout and an address-space limit (ulimit -v)",
    "reference answers and the per-prefix answers of the commit-log oracle are produced by the real engine on the undamaged recipe "
    "(and on the recipe cut after k log-resident commits)",
]
ASSUMPTIONS = [
    "no CRC-32 collision: detection of an altered checksummed region (and of every redirected read caused by an altered length / handle) "
    "holds unless the altered content has the same checksum (probability 2^-32 per redirected read; certain for single-byte alterations "
    "inside a fixed payload); the unconditional part is totality (no panic / hang) and region coverage",
    "value-log detection is claimed only under VLogChecksumLevel::Full (option vck=1)",
    "single alteration per copy; sequential reads after reopening; truncation of a commit-log segment is indistinguishable from a crash "
    "tail and is allowed to yield a prefix of the commit order in every recovery mode",
]

# Rust code paths that index / slice / allocate from bytes read off disk.  `reader_total` (Codec/RegionsSpec.v) says the
# model decoders are total; these are the places where the implementation could panic, abort or hang instead of
# returning an error — E6 watches all of them through the outcome classes PANIC / CRASH / HANG.
WATCHED_SITES = [
    "src/sstable/table.rs Footer::decode: buf[buf.len()-8..], buf[0], buf[1], &buf[2 + metalen..] (footer has no checksum)",
    "src/sstable/table.rs read_bytes: vec![0; location.size()] — allocation sized by a handle read from the file; short reads leave zeros",
    "src/sstable/table.rs read_table_block: compress[0]; Block::new assert!(data.len() > 4); read_writer_meta_properties / read_filter_block assert_eq!(user_key)",
    "src/sstable/block.rs BlockHandle::decode &src[offsize..]; BlockIterator::new restart array; decode_entry_lengths &self.block[offset..]; restart_points[index]; value_bytes slice",
    "src/sstable/filter_block.rs FilterBlockReader::new data[n-1], n - (num_offset*4 + 5), panic!(\"invalid filter block data\"), &data[start..end]; may_contain &self.data[start..limit]  (F33-F35: reached with unverified bytes)",
    "src/sstable/meta.rs TableMetadata::decode / Properties::decode (cursor reads; behind the meta block checksum)",
    "src/levels/level.rs Levels::decode Vec::with_capacity(table_count as usize) (F37); src/levels/mod.rs vec![0u8; snapshot_len]; level count 0 (F38)",
    "src/wal/reader.rs &self.buffer[offset..offset + HEADER], self.buffer[offset] (compression byte), &self.buffer[offset..offset + length]",
    "src/batch.rs Batch::decode data[pos], data[pos..pos + key_len], data[pos..pos + value_len], &data[pos..pos + VALUE_POINTER_SIZE], Vec::with_capacity(count) (behind the record checksum)",
    "src/vlog.rs VLog::get vec![0u8; total_size], entry_data_vec[0..8], entry_data_vec[crc_start..crc_start+4]; VLogFileHeader::decode; a block-cache hit is served only when the cached checksum and the value length equal the pointer's (F41, fixed: before the repair a hit returned before any check)",
    "src/compression.rs / snap::raw::Decoder::decompress_vec on verified payloads",
]

LEVEL_NOTE = ("partial by nature: unconditional = region coverage (every byte of the three formats lies in exactly one region; model maps equal the "
              "implementation's layout on every generated file) and totality (no panic / abort / hang on any explored alteration outside the recorded "
              "findings); detection of an altered payload / length / handle / footer relies on CRC-32 of the (possibly redirected) read and carries the "
              "no-collision hypothesis (probability 1 - 2^-32; certain for bursts <= 32 bits in a fixed-length payload); fields without checksum coverage "
              "are recorded as findings F33-F40 (filter block, manifest, SetCompressionType records, earlier log segments); F41 (a truncated value log that is "
              "appended to again + the block cache served another key's value) is fixed: C16_vlog_damaged_reads_checked covers every damage history of the "
              "value-log directory behind the cache, for the generated cache rule")

SHM = "/dev/shm" if os.path.isdir("/dev/shm") else "/tmp"
CASE_TIMEOUT = 20.0
CONFIRM_TIMEOUT = 240.0   # second chance of a silent case before it is called a hang
VMEM_KB = 6000000


# ------------------------------------------------------------------------------------ child
class Child:
    """one harness process driven in lock step"""

    def __init__(self):
        self.p = None
        self.buf = b""
        self.start()

    def start(self):
        self.p = subprocess.Popen("ulimit -v %d; exec %s" % (VMEM_KB, C.HARNESS_BIN), shell=True, stdin=subprocess.PIPE,
                                  stdout=subprocess.PIPE, stderr=subprocess.DEVNULL, env=dict(C.ENV, RUST_LOG="off"))
        self.buf = b""

    def ask(self, line, timeout=CASE_TIMEOUT):
        """-> (status, answer): status in ok / dead / hang"""
        try:
            self.p.stdin.write((line + "\n").encode())
            self.p.stdin.flush()
        except (BrokenPipeError, OSError):
            return "dead", self.reap()
        fd = self.p.stdout.fileno()
        t_end = time.time() + timeout
        while b"\n" not in self.buf:
            left = t_end - time.time()
            if left <= 0:
                self.kill()
                return "hang", ""
            r, _, _ = select.select([fd], [], [], left)
            if not r:
                continue
            chunk = os.read(fd, 1 << 16)
            if not chunk:
                return "dead", self.reap()
            self.buf += chunk
        line, self.buf = self.buf.split(b"\n", 1)
        return "ok", line.decode(errors="replace")

    def reap(self):
        try:
            rc = self.p.wait(timeout=5)
        except Exception:
            self.p.kill()
            rc = self.p.wait()
        return "rc=%s" % rc

    def kill(self):
        try:
            self.p.kill()
            self.p.wait()
        except Exception:
            pass

    def close(self):
        try:
            self.p.stdin.close()
            self.p.wait(timeout=10)
        except Exception:
            self.kill()


# ------------------------------------------------------------------------------------ recipes
def hexkey(i):
    return ("k%02d" % i).encode().hex()


def gen_value(rng, n, big=False):
    size = rng.choice([0, 1, 3, 4, 5, 9, 16, 17, 24, 40] if not big else [30, 60, 90, 200])
    return "-" if size == 0 else "rep:%d:%d" % (size, n & 255)


def gen_recipe(rng, name, opts, nkeys=14, phases=(5, 4), wal_tx=4, compact=False, versioned=False, big=False, rotate_in_wal=False,
               final_flush=False):
    """-> dict(name, opts, base(lines up to and incl. last flush), wal(list of per-commit line lists), keys, versioned)
    the script is  base ++ concat(wal) ++ [e2 close]"""
    lines = ["e2 open " + opts]
    tx = [0]
    clock = [0]
    vn = [0]

    def txn(nops):
        out = []
        tx[0] += 1
        t = tx[0]
        out.append("e2 begin %d rw" % t)
        if versioned:
            clock[0] += rng.randint(1, 3)
            out.append("e2 clock %d" % clock[0])
        used = set()
        for _ in range(nops):
            k = rng.randrange(nkeys)
            if k in used:
                continue
            used.add(k)
            vn[0] += 1
            if rng.random() < 0.2:
                out.append("e2 %s %d %s" % ("sdel" if versioned and rng.random() < 0.5 else "del", t, hexkey(k)))
            else:
                out.append("e2 set %d %s %s" % (t, hexkey(k), gen_value(rng, vn[0], big)))
        out.append("e2 commit %d" % t)
        return out

    for pi, ntx in enumerate(phases):
        for _ in range(ntx):
            lines += txn(rng.randint(2, 5))
        lines.append("e2 flush")
    if compact:
        lines.append("e2 compact 0")
    wal = []
    for i in range(wal_tx):
        w = txn(rng.randint(1, 3))
        if rotate_in_wal and i in (wal_tx // 2 - 1,):
            w.append("e2 rotate")
        wal.append(w)
    if final_flush:
        wal.append(["e2 flush"])
    return dict(name=name, opts=opts, base=lines, wal=wal, nkeys=nkeys, versioned=versioned, clock=clock[0],
                rotate=rotate_in_wal, final_flush=final_flush)


def tiny(name, opts, base, wal, nkeys=3, versioned=False):
    return dict(name=name, opts=opts, base=["e2 open " + opts] + base, wal=wal, nkeys=nkeys, versioned=versioned, clock=0,
                rotate=False, final_flush=False)


def tiny_recipes():
    """hand-written smallest databases (fixed, independent of the seed): they give the smallest witnesses"""
    k = hexkey
    return [
        tiny("tiny-table", "foc=0", ["e2 begin 1 rw", "e2 set 1 %s 7676" % k(0), "e2 commit 1", "e2 flush"],
             [["e2 begin 2 rw", "e2 set 2 %s 7777" % k(1), "e2 commit 2"]]),
        tiny("tiny-two-segments", "foc=0", [],
             [["e2 begin 1 rw", "e2 set 1 %s 6161" % k(0), "e2 commit 1", "e2 rotate"],
              ["e2 begin 2 rw", "e2 set 2 %s 6262" % k(1), "e2 commit 2"]]),
        tiny("tiny-vlog", "vlog=1,vth=0,vfs=4096,vck=1,foc=0",
             ["e2 begin 1 rw", "e2 set 1 %s 767676" % k(0), "e2 set 1 %s 7878787878" % k(1), "e2 commit 1", "e2 flush"],
             [["e2 begin 2 rw", "e2 set 2 %s 79797979797979" % k(2), "e2 commit 2"]]),
        # a log segment longer than two blocks: the first record ends 3 bytes before the first block boundary (zero padding),
        # the third record is split into First / Last fragments across the second boundary
        tiny("wal-blocks", "foc=0", [],
             [["e2 begin 1 rw", "e2 set 1 %s rep:32743:1" % k(0), "e2 commit 1"],
              ["e2 begin 2 rw", "e2 set 2 %s rep:50:2" % k(1), "e2 commit 2"],
              ["e2 begin 3 rw", "e2 set 3 %s rep:40000:3" % k(2), "e2 commit 3"]]),
    ]


def recipes(seed, tier):
    rng = C.Rng(seed * 7919 + 16)
    out = tiny_recipes()
    out.append(gen_recipe(rng, "plain", "bs=64,ips=32,comp=none,foc=0", nkeys=14, phases=(5, 4), wal_tx=4))
    out.append(gen_recipe(rng, "snappy-nobloom", "bs=128,ips=48,comp=snappy,bloom=0,foc=0", nkeys=12, phases=(5,), wal_tx=3, big=True))
    out.append(gen_recipe(rng, "compacted", "lc=3,bs=64,ips=32,comp=none/snappy/snappy,foc=0", nkeys=16, phases=(4, 4, 3), wal_tx=3, compact=True))
    out.append(gen_recipe(rng, "vlog-full", "bs=64,ips=32,comp=none,vlog=1,vth=4,vfs=256,vck=1,foc=0", nkeys=12, phases=(4, 3), wal_tx=3))
    out.append(gen_recipe(rng, "versioned", "lc=2,bs=64,ips=32,ver=1,vlog=1,vth=0,vfs=512,vck=1,foc=0", nkeys=6, phases=(4, 3), wal_tx=3, versioned=True))
    out.append(gen_recipe(rng, "multiwal", "bs=64,ips=32,comp=none,foc=0", nkeys=10, phases=(3,), wal_tx=6, rotate_in_wal=True))
    out.append(gen_recipe(rng, "default-blocks", "foc=0", nkeys=20, phases=(6,), wal_tx=3))
    if tier == "thorough":
        out.append(gen_recipe(rng, "plain2", "bs=64,ips=32,comp=none,foc=0", nkeys=10, phases=(3, 3), wal_tx=3))
        out.append(gen_recipe(rng, "snappy-bloom", "bs=96,ips=40,comp=snappy,foc=0", nkeys=10, phases=(4,), wal_tx=2, big=True))
    return out


def script_of(rec, path, nwal=None):
    w = rec["wal"] if nwal is None else rec["wal"][:nwal]
    lines = ["e2 newat " + path] + rec["base"]
    for x in w:
        lines += x
    lines.append("e2 close")
    return lines


def readset(rec):
    rs = ["begin 1 ro", "scan 1 ~ ~ f", "scan 1 ~ ~ b"]
    keys = [hexkey(i) for i in range(rec["nkeys"] + 2)]
    for k in keys:
        rs.append("get 1 " + k)
    if rec["versioned"]:
        lo, hi = hexkey(0), hexkey(rec["nkeys"] + 2)
        rs.append("history 1 %s %s 1 ~ ~ f" % (lo, hi))
        rs.append("history 1 %s %s 1 ~ ~ b" % (lo, hi))
        rs.append("history 1 %s %s 0 ~ ~ f" % (lo, hi))
        for k in keys[:rec["nkeys"]]:
            for ts in sorted(set([0, 1, rec["clock"] // 2, rec["clock"], rec["clock"] + 1])):
                rs.append("getat 1 %s %d" % (k, ts))
    # second phase: operations that rewrite what was read (flush of the replayed log, compaction of the
    # tables), then the content again through a fresh transaction
    rs += ["flush", "compact 0", "begin 2 ro", "scan 2 ~ ~ f", "scan 2 ~ ~ b"]
    for k in keys[:4]:
        rs.append("get 2 " + k)
    return rs


# ------------------------------------------------------------------------------------ region maps
def parse_layout(line):
    d = dict(kv.split("=", 1) for kv in line.split(" "))

    def hs(s):
        return [] if s == "-" else [tuple(int(x) for x in h.split(":")) for h in s.split(",")]
    return dict(len=int(d["len"]), data=hs(d["data"]), filter=(hs(d["filter"]) or [None])[0], parts=hs(d["parts"]),
                top=hs(d["top"])[0], meta=hs(d["meta"])[0], fhl=int(d["fhl"]), vptrs=hs(d["vptrs"]))


def model_regions(model, cmd):
    """ask the extracted model for a region map: answer `total=N regions=off:len:class,...`"""
    st, a = model.ask(cmd)
    if st != "ok" or not a.startswith("total="):
        raise C.Broken("region-map model (driver rg command) failed", "%s -> %s %s" % (cmd[:200], st, a[:300]))
    d = dict(kv.split("=", 1) for kv in a.split(" "))
    regs = [] if d["regions"] == "-" else [(int(o), int(l), c) for o, l, c in (r.split(":") for r in d["regions"].split(","))]
    return int(d["total"]), regs


class ModelProc(Child):
    def start(self):
        self.p = subprocess.Popen("ulimit -s unlimited 2>/dev/null; exec " + C.DRIVER_BIN, shell=True, stdin=subprocess.PIPE,
                                  stdout=subprocess.PIPE, stderr=subprocess.DEVNULL)
        self.buf = b""


def check_tiling(regs, total, what):
    """python-side re-check of what table_regions_cover etc. prove: contiguous from 0 to total"""
    pos = 0
    for o, l, c in regs:
        if o != pos:
            return "%s: region %s at %d does not start where the previous one ended (%d)" % (what, c, o, pos)
        pos = o + l
    if pos != total:
        return "%s: regions end at %d, file length is %d" % (what, pos, total)
    return None


def table_regions(model, lay, params):
    """description of the real table -> model regions; cross-check against every handle of the facade"""
    problems = []
    descr = "data=%s filter=%s parts=%s top=%d meta=%d" % (
        ",".join(str(s) for _, s in lay["data"]) or "-", lay["filter"][1] if lay["filter"] else "-",
        ",".join(str(s) for _, s in lay["parts"]) or "-", lay["top"][1], lay["meta"][1])
    total, regs = model_regions(model, "rg table " + descr)
    t = check_tiling(regs, total, "table")
    if t:
        problems.append(t)
    if total != lay["len"]:
        problems.append("table: model length %d, real file length %d (descr %s)" % (total, lay["len"], descr))
    pay = [(o, l) for o, l, c in regs if c.endswith("_payload")]
    want = list(lay["data"]) + ([lay["filter"]] if lay["filter"] else []) + list(lay["parts"]) + [lay["top"], lay["meta"]]
    if pay != want:
        problems.append("table: payload regions of the model %s differ from the handles the implementation decoded %s" % (pay, want))
    fh = [l for o, l, c in regs if c == "footer_handles"]
    if fh != [lay["fhl"]]:
        problems.append("table: footer handle bytes model %s, implementation %d" % (fh, lay["fhl"]))
    return regs, problems


def wal_regions(model, path, ends_line, params):
    data = open(path, "rb").read()
    total, regs = model_regions(model, "rg wal %s" % (data.hex() or "-"))
    problems = []
    t = check_tiling(regs, total, "wal")
    if t:
        problems.append(t)
    if total != len(data):
        problems.append("wal: model length %d, real %d" % (total, len(data)))
    # logical record ends reported by the implementation's reader = ends of the Full/Last payload regions of the model
    d = dict(kv.split("=", 1) for kv in ends_line.split(" "))
    impl_ends = [] if d["recs"] == "-" else [int(x.split(":")[1]) for x in d["recs"].split(",")]
    st, a = model.ask("rg walends %s" % (data.hex() or "-"))
    model_ends = [] if a in ("-", "") else [int(x) for x in a.split(",")]
    if st != "ok" or model_ends != impl_ends or d["tail"] != "eof":
        problems.append("wal: record ends model %s implementation %s tail %s" % (a, impl_ends, d.get("tail")))
    return regs, impl_ends, problems


def vlog_regions(model, path, vptrs, fid):
    data = open(path, "rb").read()
    total, regs = model_regions(model, "rg vlog %s" % (data.hex() or "-"))
    problems = []
    t = check_tiling(regs, total, "vlog")
    if t:
        problems.append(t)
    if total != len(data):
        problems.append("vlog: model length %d, real %d" % (total, len(data)))
    # every value pointer stored in a table names an entry of the model's map
    ents = {}
    cur = None
    for o, l, c in regs:
        if c == "ent_klen":
            cur = [o, None, None]
        elif c == "ent_key" and cur:
            cur[1] = l
        elif c == "ent_value" and cur:
            cur[2] = l
            ents[cur[0]] = (cur[1], cur[2])
    for f, o, k, v, _crc in vptrs:
        if f == fid and ents.get(o) != (k, v):
            problems.append("vlog: pointer (file %d offset %d key %d value %d) is not an entry of the model's map (%s)" % (f, o, k, v, ents.get(o)))
    return regs, problems


def model_reads(model, db, rng, problems, stats):
    """run the model's readers (Codec/Regions.v read_block / footer_check / vlog_get with the real CRC-32) on the real files:
    every block / footer / referenced value-log entry must verify, and for a sample of single-byte alterations inside
    checksummed regions the model must answer `none` (this evaluates the no-collision hypothesis of block_damage_detected /
    vlog_full_detected on real data)"""
    def ask(cmd):
        st, a = model.ask(cmd, 120)
        if st != "ok":
            raise C.Broken("region-map model (driver rg command) failed", cmd[:100] + " -> " + st + " " + a[:200])
        return a
    for fi, f in enumerate(db.files):
        if f["kind"] not in ("table", "vlog"):
            continue
        data = open(os.path.join(db.path, f["rel"]), "rb").read()
        fid = "%s%d" % (db.rec["name"], fi)
        ask("rg file %s %s" % (fid, data.hex()))
        name = "%s/%s" % (db.rec["name"], f["rel"])
        if f["kind"] == "table":
            lay = f["lay"]
            blocks = list(lay["data"]) + ([lay["filter"]] if lay["filter"] else []) + list(lay["parts"]) + [lay["top"], lay["meta"]]
            for o, n in blocks:
                a = ask("rg readblock %s %d %d" % (fid, o, n))
                stats["model_blocks_verified"] += 1
                if not a.startswith("some:"):
                    problems.append("%s: block (%d,%d) of the real file does not verify in the model: %s" % (name, o, n, a))
            if not ask("rg footer %s" % fid).startswith("some:"):
                problems.append("%s: footer of the real file does not pass the model's footer_check" % name)
            # sampled alterations
            for o, n in rng.sample(blocks, min(len(blocks), 6)):
                for x in pick_offsets(rng, o, n + 5, 5):
                    v = (data[x] ^ (1 << rng.randrange(8)))
                    a = ask("rg readblock %s %d %d %d %d" % (fid, o, n, x, v))
                    stats["model_alterations_detected" if a == "none" else "model_collisions"] += 1
                    if a != "none":
                        problems.append("%s: model read_block still verifies after altering offset %d (CRC collision?)" % (name, x))
            flen = len(data)
            for x, expect in [(flen - 50, "none"), (flen - 49, "none"), (flen - 1, "none"), (flen - 8, "none"), (flen - 10, "some")]:
                a = ask("rg footer %s %d %d" % (fid, x, data[x] ^ 0x40))
                if not a.startswith(expect):
                    problems.append("%s: model footer_check after altering offset %d: %s, expected %s" % (name, x, a, expect))
        else:
            m = re.match(r"vlog/(\d+)\.", f["rel"])
            vid = int(m.group(1))
            ptrs = [p for p in db.vptrs if p[0] == vid]
            for _, o, k, v, crc in ptrs:
                a = ask("rg vlogget %s %d %d %d %d" % (fid, o, k, v, crc))
                stats["model_vlog_entries_verified"] += 1
                if not a.startswith("some:%d:" % v):
                    problems.append("%s: entry at %d does not resolve in the model (Full verification): %s" % (name, o, a))
            for _, o, k, v, crc in rng.sample(ptrs, min(len(ptrs), 4)):
                for x in pick_offsets(rng, o, 8 + k + v + 4, 6):
                    w = data[x] ^ (1 << rng.randrange(8))
                    a = ask("rg vlogget %s %d %d %d %d %d %d" % (fid, o, k, v, crc, x, w))
                    stats["model_alterations_detected" if a == "none" else "model_collisions"] += 1
                    if a != "none":
                        problems.append("%s: model vlog_get still succeeds after altering offset %d" % (name, x))


def manifest_regions(path):
    """manifest has no Coq model (not one of the three checksummed formats): parsed here"""
    b = open(path, "rb").read()
    regs = [(0, 2, "version"), (2, 8, "next_table_id"), (10, 8, "log_number"), (18, 8, "last_sequence"), (26, 1, "level_count")]
    pos = 27
    for _ in range(b[26]):
        n = int.from_bytes(b[pos:pos + 4], "big")
        regs.append((pos, 4, "table_count"))
        pos += 4
        for _ in range(n):
            regs.append((pos, 8, "table_id"))
            pos += 8
    regs.append((pos, 4, "snapshot_count"))
    n = int.from_bytes(b[pos:pos + 4], "big")
    pos += 4
    for _ in range(n):
        regs.append((pos, 4, "snapshot_len"))
        regs.append((pos + 4, 24, "snapshot"))
        pos += 28
    return regs, ([] if pos == len(b) else ["manifest: parsed %d of %d bytes" % (pos, len(b))])


# ------------------------------------------------------------------------------------ building
class Db:
    pass


def build_db(rec, root, model, params, problems):
    """build the database of a recipe, its layout/region maps, reference answers, per-prefix answers"""
    db = Db()
    db.model_stats = dict(model_blocks_verified=0, model_alterations_detected=0, model_collisions=0, model_vlog_entries_verified=0)
    db.rec = rec
    db.dir = os.path.join(root, rec["name"])
    db.path = os.path.join(db.dir, "db")
    os.makedirs(db.dir, exist_ok=True)
    ch = Child()
    try:
        for l in script_of(rec, db.path):
            st, a = ch.ask(l, 60)
            if st != "ok" or not (a == "ok"):
                raise C.Broken("C16: recipe %s did not build" % rec["name"], "%s -> %s %s" % (l, st, a))
        db.rs = readset(rec)
        db.files = []      # (rel, kind, regions)
        db.vptrs = []
        for sub in ("sstables", "wal", "vlog", "manifest"):
            d = os.path.join(db.path, sub)
            if not os.path.isdir(d):
                continue
            for fn in sorted(os.listdir(d)):
                rel = os.path.join(sub, fn)
                full = os.path.join(db.path, rel)
                size = os.path.getsize(full)
                if sub == "sstables" and fn.endswith(".sst"):
                    st, a = ch.ask("dmg layout " + full)
                    if st != "ok" or not a.startswith("len="):
                        raise C.Broken("C16: layout report failed", "%s: %s %s" % (full, st, a))
                    lay = parse_layout(a)
                    regs, pr = table_regions(model, lay, params)
                    problems += ["%s/%s %s" % (rec["name"], rel, p) for p in pr]
                    db.vptrs += lay["vptrs"]
                    db.files.append(dict(rel=rel, kind="table", regs=regs, size=size, lay=lay))
                elif sub == "wal" and fn.endswith(".wal"):
                    if size == 0:
                        continue
                    st, a = ch.ask("dmg walends " + full)
                    regs, ends, pr = wal_regions(model, full, a, params)
                    problems += ["%s/%s %s" % (rec["name"], rel, p) for p in pr]
                    db.files.append(dict(rel=rel, kind="wal", regs=regs, size=size, ends=ends, seg=int(fn.split(".")[0])))
                elif sub == "manifest":
                    regs, pr = manifest_regions(full)
                    problems += ["%s/%s %s" % (rec["name"], rel, p) for p in pr]
                    db.files.append(dict(rel=rel, kind="manifest", regs=regs, size=size))
        vd = os.path.join(db.path, "vlog")
        if os.path.isdir(vd):
            for fn in sorted(os.listdir(vd)):
                full = os.path.join(vd, fn)
                m = re.match(r"(\d+)\.", fn)
                if not m or os.path.getsize(full) == 0:
                    continue
                regs, pr = vlog_regions(model, full, db.vptrs, int(m.group(1)))
                problems += ["%s/vlog/%s %s" % (rec["name"], fn, p) for p in pr]
                db.files.append(dict(rel=os.path.join("vlog", fn), kind="vlog", regs=regs, size=os.path.getsize(full)))
        model_reads(model, db, C.Rng(len(db.files) * 31 + 7), problems, db.model_stats)
        # reference answers (verbose) on an unaltered copy
        db.ref = run_reference(ch, db.path, os.path.join(db.dir, "ref"), rec["opts"], db.rs)
        # per-prefix answers for the commit-log oracle: the recipe cut after k log-resident commits
        db.prefix = []
        nw = len(rec["wal"])
        for k in range(nw + 1):
            if k == nw:
                db.prefix.append(db.ref)
                continue
            pp = os.path.join(db.dir, "prefix%d" % k)
            for l in script_of(rec, os.path.join(pp, "db"), nwal=k):
                st, a = ch.ask(l, 60)
                if st != "ok" or a != "ok":
                    raise C.Broken("C16: prefix recipe did not build", "%s -> %s %s" % (l, st, a))
            db.prefix.append(run_reference(ch, os.path.join(pp, "db"), os.path.join(db.dir, "pref"), rec["opts"], db.rs))
            shutil.rmtree(pp, ignore_errors=True)
        # commit k of the log-resident part lives in which segment at which record index
        db.walmap = wal_commit_map(db)
    finally:
        ch.close()
    return db


def set_readset(ch, rs):
    ch.ask("dmg rs clear")
    for r in rs:
        ch.ask("dmg rs add " + r)


def run_reference(ch, src, dst, opts, rs):
    set_readset(ch, rs)
    st, a = ch.ask("dmg case %s %s %s - none 0 0 1" % (src, dst, opts), 60)
    f = a.split("\t")
    if st != "ok" or len(f) != len(rs) + 3 or f[1] != "open=ok" or any(x.startswith(("err", "PANIC")) for x in f[2:-1]):
        raise C.Broken("C16: reference read of an undamaged database failed", "%s %s" % (st, a[:2000]))
    return f[2:-1]


def wal_commit_map(db):
    """[(segment file rel, first commit index, number of commits)] in commit order; the log-resident commits
    are spread over the non-empty segments in order (one record per commit)"""
    out = []
    k = 0
    for f in db.files:
        if f["kind"] == "wal":
            out.append((f["rel"], k, len(f["ends"])))
            k += len(f["ends"])
    db.wal_records = k
    return out


# ------------------------------------------------------------------------------------ cases
ALTS_ALL = [("xor", 1 << b) for b in range(8)] + [("set", 0), ("set", 255), ("add", 1)]


def pick_offsets(rng, o, l, k):
    if l <= k:
        return list(range(o, o + l))
    s = {o, o + l - 1}
    while len(s) < k:
        s.add(o + rng.randrange(l))
    return sorted(s)


def region_of(regs, x):
    for o, l, c in regs:
        if o <= x < o + l:
            return c
    return "outside"


def gen_cases(db, rng, tier, every_offset):
    """-> list of dict(rel, fkind, kind, off, val, region, mode)"""
    cases = []
    for f in db.files:
        if f["kind"] == "manifest":
            # the property quantifies over table files, commit-log segments and value-log files; the
            # manifest (which has no checksum by design) is outside it and is not altered here
            continue
        full = os.path.join(db.path, f["rel"])
        data = open(full, "rb").read()
        offs = []
        if every_offset:
            offs = [(x, region_of(f["regs"], x)) for x in range(len(data))]
        else:
            per = 3 if f["kind"] == "table" else 4
            seen = {}
            for o, l, c in f["regs"]:
                seen[c] = seen.get(c, 0) + 1
                # every instance of a region for the first few, then every third instance
                if seen[c] > 6 and seen[c] % 3:
                    continue
                kk = per if not c.endswith("payload") and c not in ("ent_value", "ent_key", "rec_payload") else per + 3
                for x in pick_offsets(rng, o, l, kk):
                    offs.append((x, c))
        for x, c in offs:
            if every_offset:
                alts = ALTS_ALL
            else:
                alts = [("xor", 1 << rng.randrange(8)), ("set", 0), ("set", 255), ("add", 1)]
                if c in ("footer_handles", "rec_len", "ent_klen", "ent_vlen", "table_count", "level_count", "snapshot_count", "table_id",
                         "log_number", "version", "rec_type", "data_type", "top_type", "part_type", "meta_type", "filter_type"):
                    alts = ALTS_ALL
            done = set()
            for kind, val in alts:
                old = data[x]
                new = val if kind == "set" else (old ^ val if kind == "xor" else (old + val) & 255)
                if new == old or new in done:
                    continue
                done.add(new)
                modes = ["std", "abs"] if f["kind"] == "wal" else ["std"]
                for m in modes:
                    cases.append(dict(rel=f["rel"], fkind=f["kind"], kind="set", off=x, val=new, old=old, region=c, mode=m))
        # truncations
        cuts = set()
        if f["kind"] == "table":
            for o, l, c in f["regs"]:
                cuts.add(o)
                cuts.add(o + l)
            cuts.add(len(data) - 1)
        elif f["kind"] == "wal":
            for o, l, c in f["regs"]:
                cuts.add(o)
                if l > 1:
                    cuts.add(o + l // 2)
        elif f["kind"] == "vlog":
            for o, l, c in f["regs"]:
                if c in ("ent_klen", "ent_value", "ent_crc", "hdr_magic"):
                    cuts.add(o)
                    cuts.add(o + l // 2)
        elif f["kind"] == "manifest":
            cuts = set(range(0, len(data)))
        cuts.discard(len(data))
        for x in sorted(cuts):
            modes = ["std", "abs"] if f["kind"] == "wal" else ["std"]
            for m in modes:
                cases.append(dict(rel=f["rel"], fkind=f["kind"], kind="trunc", off=x, val=0, old=0,
                                  region="trunc@" + region_of(f["regs"], x), mode=m))
    return cases


def hashed(a):
    return a if len(a) <= 40 or a.startswith(("PANIC", "err")) else "~" + C.fnv(a.encode())


def expected_prefix(db, case):
    """index k of the prefix state that must result when the commit log is damaged at this place
    (default recovery mode): commits before the damaged record survive, the rest is lost"""
    for rel, first, n in db.walmap:
        if rel == case["rel"]:
            f = [x for x in db.files if x["rel"] == rel][0]
            x = case["off"]
            i = 0
            while i < len(f["ends"]) and f["ends"][i] <= x:
                i += 1
            if case["kind"] == "trunc":
                return first + i, first + n      # records wholly before the cut; later segments are unaffected?
            return first + i, first + n
    return None, None


def classify(db, case, st, ans):
    """-> (outcome, detail)"""
    if st == "hang":
        return "HANG", "no answer within %.0f s, and again none within %.0f s in a fresh child" % (CASE_TIMEOUT, CONFIRM_TIMEOUT)
    if st == "dead":
        return "CRASH", "child process died (%s)" % ans
    f = ans.split("\t")
    if f[0].startswith("setup-err"):
        return "SETUP", ans
    opn = f[1]
    if opn.startswith("open=PANIC"):
        return "PANIC", opn
    if opn != "open=ok":
        return "ERROR", opn
    body = f[2:]
    close = [x for x in body if x.startswith(("close=", "drop="))]
    reads = [x for x in body if not x.startswith(("close=", "drop="))]
    for x in reads + close:
        if "PANIC" in x[:12]:
            return "PANIC", x
    if len(reads) != len(db.ref):
        return "DIFFERENT", "answer count %d vs %d" % (len(reads), len(db.ref))
    ref_h = db.ref_h
    errs = [i for i, x in enumerate(reads) if x.startswith("err")]
    diff = [i for i, x in enumerate(reads) if not x.startswith("err") and x != ref_h[i] and x != db.ref[i]]
    if not diff:
        return ("ERROR", "read: " + reads[errs[0]]) if errs else ("SAME", "")
    if case["fkind"] == "wal":
        ks = [k for k, p in enumerate(db.prefix_h)
              if all(x.startswith("err") or x == p[i] or x == db.prefix[k][i] for i, x in enumerate(reads))]
        if ks:
            return "PREFIX", ",".join(str(k) for k in ks)
    i = diff[0]
    return "DIFFERENT", "read `%s` answered %s, reference %s" % (db.rs[i], reads[i], db.ref[i][:300])


def allowed(db, case, outcome, detail):
    """is the outcome allowed by the property?  -> (ok, why-not)"""
    if outcome in ("SAME", "ERROR"):
        return True, ""
    if outcome == "PREFIX":
        ks = [int(k) for k in detail.split(",")]
        lo, hi = expected_prefix(db, case)
        if case["kind"] == "trunc":
            # a cut commit log = crash tail: the surviving prefix must be exactly the records wholly before the cut
            if lo in ks:
                return True, ""
            return False, "commit log cut inside record %d of the commit order, content = state after %s commits" % (lo, detail)
        if case["mode"] == "abs":
            return False, "AbsoluteConsistency: damaged commit log (record %d of %d) accepted, content = state after %s commits" % (lo, db.wal_records, detail)
        if lo in ks:
            return True, ""
        return False, "damage inside record %d of the commit order, content = state after %s commits" % (lo, detail)
    return False, detail


# ------------------------------------------------------------------------------------ known classes
OUTCOME_GROUP = {"DIFFERENT": "wrong_data", "PREFIX": "wrong_data", "PANIC": "panic", "CRASH": "abort", "HANG": "hang"}


def finding_class(db, case, outcome):
    """class of a failing input = (file kind, region group, kind of failure)"""
    fk, reg = case["fkind"], case["region"]
    og = OUTCOME_GROUP.get(outcome, outcome.lower())
    if fk == "table":
        if reg.startswith("filter_"):
            return "table_filter_unchecked_" + og
        if reg.startswith("footer_"):
            return "table_footer_unchecked_" + og
        if reg.startswith("trunc@"):
            return "table_truncated_" + og
        return "table_%s_%s" % (reg, og)
    if fk == "manifest":
        return "manifest_unchecked_" + og
    if fk == "wal":
        if og == "wrong_data":
            last = db.walmap[-1][0] if db.walmap else None
            if case["rel"] != last:
                return "wal_earlier_segment_damage_leaves_hole"
            if reg == "rec_type" and case["val"] == 9:
                return "wal_type_to_setcompression_unchecked"
            if case["mode"] == "abs":
                return "wal_abs_%s_accepted" % reg
        return "wal_%s_%s" % (reg, og)
    if fk == "vlog":
        if reg.startswith("trunc@"):
            return "vlog_truncated_" + og
        return "vlog_%s_%s" % (reg, og)
    return "%s_%s" % (fk, og)


def load_known():
    p = os.path.join(C.VERIF, "known_findings.json")
    data = json.load(open(p))
    return {f["class"]: "%s: %s" % (f["id"], f["what"]) for f in data.get("findings", [])
            if f.get("property") == PID and f.get("status", "open") == "open"}


# ------------------------------------------------------------------------------------ running
def run_cases(db, cases, root, wid):
    """one worker: lock-step over its cases; returns list of (case, outcome, detail, raw)"""
    out = []
    ch = Child()
    set_readset(ch, db.rs)
    dst = os.path.join(root, "w%d" % wid)
    try:
        for c in cases:
            opts = db.rec["opts"] + (",abs=1" if c["mode"] == "abs" else "")
            line = "dmg case %s %s %s %s %s %d %d 0" % (db.path, dst, opts, c["rel"], c["kind"], c["off"], c["val"])
            st, a = ch.ask(line)
            if st == "hang":
                # a silent child can be a slow machine (other checks running): the verdict HANG is given only when the
                # case, run again on its own in a fresh child, is still silent after a much longer wait
                ch.kill()
                ch = Child()
                set_readset(ch, db.rs)
                st, a = ch.ask(line, timeout=CONFIRM_TIMEOUT)
            oc, det = classify(db, c, st, a)
            out.append((c, oc, det, a if st == "ok" else st + " " + a))
            if st != "ok":
                ch.kill()
                ch = Child()
                set_readset(ch, db.rs)
    finally:
        ch.close()
        shutil.rmtree(dst, ignore_errors=True)
    return out


def replay_text(db, case, outcome, detail, raw, why):
    rec = db.rec
    lines = ["# property=C16 engine=E6 (damage sweep)  — re-run with: tools/check C16 --replay <this file>",
             "# recipe=%s file=%s alteration=%s offset=%d new_byte=%s old_byte=%s region=%s recovery_mode=%s" % (
                 rec["name"], case["rel"], case["kind"], case["off"], "%02x" % case["val"] if case["kind"] != "trunc" else "-",
                 "%02x" % case["old"] if case["kind"] != "trunc" else "-", case["region"], "AbsoluteConsistency" if case["mode"] == "abs" else "default"),
             "# outcome=%s : %s" % (outcome, why or detail),
             "OPTS " + rec["opts"] + (",abs=1" if case["mode"] == "abs" else ""),
             "FILE " + case["rel"],
             "ALTER %s %d %d" % (case["kind"], case["off"], case["val"]),
             "MODE " + case["mode"]]
    for l in script_of(rec, "@DB@"):
        lines.append("BUILD " + l)
    for r in db.rs:
        lines.append("READ " + r)
    for r, a in zip(db.rs, db.ref):
        lines.append("REFERENCE %s => %s" % (r, a))
    lines.append("OBSERVED " + raw.replace("\t", " | "))
    return "\n".join(lines) + "\n"


def explore(ctx):
    tier, seed = ctx["tier"], ctx["seed"]
    t0 = time.time()
    root = os.path.join(SHM, "c16-%d-%d" % (os.getpid(), seed))
    shutil.rmtree(root, ignore_errors=True)
    os.makedirs(root)
    res = dict(violations=[], known=[], disagreements=[], coverage={})
    known = load_known()
    model = ModelProc() if ctx.get("have_model") else None
    try:
        if model is None:
            res["disagreements"].append("no model driver: region maps cannot be computed")
            return res
        st, pl = Child().ask("dmg params")
        st2, ml = model.ask("rg params")
        if model.ask("rg paramsok")[1] != "true":
            res["disagreements"].append("generated parameters do not satisfy the side conditions of the region model (RegionsInst.c16_params_ok)")
        params = dict(kv.split("=") for kv in pl.split(" "))
        if pl != ml:
            res["disagreements"].append("format constants: implementation `%s` model `%s`" % (pl, ml))
        recs = recipes(seed, tier)
        problems = []
        with ThreadPoolExecutor(max_workers=C.NCPU) as ex:
            models = [ModelProc() for _ in recs]
            dbs = list(ex.map(lambda rm: build_db(rm[0], root, rm[1], params, problems), zip(recs, models)))
            for m in models:
                m.close()
        res["disagreements"] += problems
        rng = C.Rng(seed * 104729 + 3)
        jobs = []
        dist = {}
        total_bytes = 0
        for db in dbs:
            db.ref_h = [hashed(a) for a in db.ref]
            db.prefix_h = [[hashed(a) for a in p] for p in db.prefix]
            size = sum(f["size"] for f in db.files)
            total_bytes += size
            every = tier == "thorough" and size <= 6000
            cases = gen_cases(db, rng, tier, every)
            db.ncases = len(cases)
            for c in cases:
                key = "%s/%s" % (c["fkind"], c["region"])
                dist[key] = dist.get(key, 0) + 1
            rng.shuffle(cases)
            for i, sh in enumerate(C.shard(cases, C.NCPU * 2)):
                jobs.append((db, sh))
        t_build = time.time() - t0
        with ThreadPoolExecutor(max_workers=C.NCPU) as ex:
            outs = list(ex.map(lambda j: run_cases(j[1][0], j[1][1], root, j[0]), enumerate(jobs)))
        outcomes = {}
        per_file_kind = {}
        by_class = {}
        for (db, _), rows in zip(jobs, outs):
            for case, oc, det, raw in rows:
                k = "%s:%s" % (case["fkind"], oc)
                outcomes[k] = outcomes.get(k, 0) + 1
                if oc == "SETUP":
                    res["disagreements"].append("case could not be set up: %s %s" % (case, det))
                    continue
                ok, why = allowed(db, case, oc, det)
                if ok:
                    continue
                cls = finding_class(db, case, oc)
                item = (db, case, oc, det, raw, why)
                by_class.setdefault(cls, []).append(item)
        n_viol = 0
        res["details"] = [(cls, it[0].rec["name"], it[1]["rel"], it[1]["kind"], it[1]["off"], it[1]["val"], it[1]["region"], it[1]["mode"], it[2], it[5] or it[3])
                          for cls, items in by_class.items() for it in items]
        for cls, items in sorted(by_class.items()):
            # smallest witness first: smallest database, then lowest offset
            items.sort(key=lambda it: (sum(f["size"] for f in it[0].files), it[1]["off"]))
            db, case, oc, det, raw, why = items[0]
            text = replay_text(db, case, oc, det, raw, why)
            desc = "%s: %s file %s %s offset %d (region %s, %s mode) -> %s: %s   [%d cases of this class]" % (
                cls, db.rec["name"], case["rel"], case["kind"], case["off"], case["region"], case["mode"], oc, why or det, len(items))
            if cls in known:
                res["known"].append("%s (%s) x%d e.g. %s" % (cls, known[cls][:160], len(items), desc[:300]))
                C.write_replay(PID, "known_%s.txt" % cls, text)
            else:
                res["violations"].append((desc, text))
                n_viol += len(items)
        # directed damage differential of the value log behind the block cache (F41): crate vs model vs python file path
        from . import c11 as VP
        cv, cd, cst = VP.cut_differential(ctx, PID)
        res["disagreements"] += cd
        if cv:
            cv.sort(key=lambda x: len(x[1]))
            cls = "vlog_truncated_wrong_data"
            desc = "%s: value log of its own (vp engine): %s   [%d failing reads of this class]" % (cls, cv[0][0], len(cv))
            if cls in known:
                res["known"].append("%s (%s) e.g. %s" % (cls, known[cls][:160], desc[:300]))
                C.write_replay(PID, "known_%s_vp.txt" % cls, cv[0][1])
            else:
                res["violations"].append((desc, cv[0][1]))
            by_class.setdefault(cls, [])
        ncases = sum(len(r) for r in outs) + cst["commands"]
        res["coverage"] = {
            "vlog_cut_differential": cst,
            "evaluations": ncases,
            "distinct_nontrivial": sum(1 for k, v in dist.items() if v),
            "rule": "database recipes (%s) built through the E2 commands; every file altered in a copy: %s; non-trivial = a (file kind, region class) "
                    "pair that was altered at least once" % (", ".join(r["name"] for r in recs),
                                                             "every offset x {8 bit flips, 0x00, 0xff, +1} for databases <= 6000 bytes, stratified otherwise"
                                                             if tier == "thorough" else "stratified sample of offsets of every region instance x {bit flip, 0x00, 0xff, +1} "
                                                             "(all 11 alterations on length / count / type / handle bytes)") + "; truncations at every region boundary; plus the directed damage differential of the "
                    "value log behind the block cache (append, cut at entry boundaries / inside entries / inside the header, reopen, append from the cut position, read new then OLD "
                    "pointers: crate vs extracted model vs python file path)",
            "programs": len(dbs),
            "database_bytes": total_bytes,
            "input_distribution_per_region_class": dict(sorted(dist.items())),
            "outcomes": dict(sorted(outcomes.items())),
            "finding_classes": {k: len(v) for k, v in by_class.items()},
            "disagreements_checked": sum(len(db.files) for db in dbs),
            "samples": [dict(recipe=db.rec["name"], files={f["rel"]: f["size"] for f in db.files}, cases=db.ncases) for db in dbs],
            "build_s": round(t_build, 1),
            "level_note": LEVEL_NOTE,
            "watched_rust_sites": WATCHED_SITES,
            "model_reader_checks": {k: sum(db.model_stats[k] for db in dbs) for k in dbs[0].model_stats},
        }
    finally:
        if model:
            model.close()
        shutil.rmtree(root, ignore_errors=True)
    return res


# ------------------------------------------------------------------------------------ replay
def replay(ctx):
    text = open(ctx["replay"]).read()
    get = lambda tag: [l[len(tag) + 1:] for l in text.splitlines() if l.startswith(tag + " ")]
    opts, rel = get("OPTS")[0], get("FILE")[0]
    kind, off, val = get("ALTER")[0].split()
    root = os.path.join(SHM, "c16-replay-%d" % os.getpid())
    shutil.rmtree(root, ignore_errors=True)
    os.makedirs(root)
    ch = Child()
    try:
        for l in get("BUILD"):
            st, a = ch.ask(l.replace("@DB@", os.path.join(root, "db")), 60)
            if st != "ok" or a != "ok":
                print("build step failed: %s -> %s %s" % (l, st, a))
                return 2
        rs = get("READ")
        set_readset(ch, rs)
        base_opts = opts.replace(",abs=1", "")
        st, ref = ch.ask("dmg case %s %s %s - none 0 0 1" % (os.path.join(root, "db"), os.path.join(root, "w"), base_opts), 60)
        st, a = ch.ask("dmg case %s %s %s %s %s %s %s 1" % (os.path.join(root, "db"), os.path.join(root, "w"), opts, rel, kind, off, val))
        print("alteration: file %s %s offset %s value %s" % (rel, kind, off, val))
        if st != "ok":
            print("OBSERVED: %s %s  (hang = no answer in %.0f s, dead = child process died)" % (st, a, CASE_TIMEOUT))
            return 1
        rf, of = ref.split("\t"), a.split("\t")
        print("open: " + of[1])
        bad = 0
        for i, r in enumerate(rs):
            o = of[2 + i] if 2 + i < len(of) else "(none)"
            w = rf[2 + i] if 2 + i < len(rf) else "(none)"
            flag = "same" if o == w else ("error" if o.startswith("err") else "DIFFERENT")
            if flag == "DIFFERENT" or "PANIC" in o[:12]:
                bad += 1
            if flag != "same":
                print("  %-30s observed %s\n  %-30s reference %s   [%s]" % (r, o, "", w, flag))
        if of[1].startswith("open=PANIC"):
            bad += 1
        print("reads differing from the reference without an error (or panicking): %d" % bad)
        return 1 if bad else 0
    finally:
        ch.close()
        shutil.rmtree(root, ignore_errors=True)
