"""C02 — acknowledged commits survive crashes (E4: syscall trace + crash-image enumeration, tied to Crash/Proto.v)."""
from . import crashwl as W

PARAM_SECTIONS = ["wal"]
from . import crash as K
from . import crashproto as P
from . import multigen as MG

MODEL_TARGETS = ["theories/Crash/Proto.vo"]
TRUSTED = ["LD_PRELOAD recorder shim/shim.c (operation log under one global order) and the file-system simulator tools/vlib/crash.py "
           "(crash models exactly as the property states them: process crash keeps every completed write; power loss keeps per file "
           "the fsynced content plus a prefix of the unsynced writes; namespace operations in order)",
           "sequential workloads: the commit order is the script order (concurrent committers are examined by the interleaving engine)",
           "tools/vlib/crashproto.py: abstraction of a recorded trace into the events of Crash/Proto.v (python transcription of the WAL "
           "reader, cross-checked against the real reader on every segment file; table coverage from the real table reader; a compaction "
           "output is given the coverage of its inputs)"]
ASSUMPTIONS = ["fsync persists what it is called on; directory entries are durable in operation order (as the property's crash model states)",
               "protocol theorems: a batch is one WAL record and the unit of a table's coverage; value-log files, the versioned B+tree index "
               "file, directory fsyncs and concurrent committers/flushers are not part of the protocol model"]


def explore(ctx):
    r = W.explore(ctx, "C02", {"acked-lost"}, n_quick=16, n_thorough=120, big=True, proto=P, proto_traces=16 if ctx["tier"] == "quick" else 80,
                  proto_gen2=2 if ctx["tier"] == "quick" else 6)
    r = MG.directed("C02", r)
    # a crash-engine violation on a power-loss image that is explained by a rotated, never fsynced value-log file
    kf = __import__("vlib.common", fromlist=["known_findings"]).known_findings("C02")
    keep = []
    for (d, t, info) in r["violations"]:
        cls = P.classify_vlog(info) if "log" in info and "cut" in info else None
        if cls and cls in kf:
            path = __import__("vlib.common", fromlist=["write_replay"]).write_replay("C02", "known_%s_image.txt" % cls, t)
            r["known"].append("%s [class %s; replay: %s]" % (kf[cls], cls, path))
        else:
            keep.append((d, t, info))
    r["violations"] = [(d, t) for (d, t, _) in keep][:3]
    return P.merge(r, ctx, "C02")


def replay(ctx):
    print(open(ctx["replay"]).read())
    return 0
