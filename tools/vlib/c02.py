"""C02 — acknowledged commits survive crashes (E4: syscall trace + crash-image enumeration)."""
from . import crashwl as W

PARAM_SECTIONS = ["wal"]
from . import crash as K

MODEL_TARGETS = []
TRUSTED = ["LD_PRELOAD recorder shim/shim.c (operation log under one global order) and the file-system simulator tools/vlib/crash.py "
           "(crash models exactly as the property states them: process crash keeps every completed write; power loss keeps per file "
           "the fsynced content plus a prefix of the unsynced writes; namespace operations in order)",
           "sequential workloads: the commit order is the script order (concurrent committers are examined by the interleaving engine)"]
ASSUMPTIONS = ["fsync persists what it is called on; directory entries are durable in operation order (as the property's crash model states)"]


def explore(ctx):
    r = W.explore(ctx, "C02", {"acked-lost"}, n_quick=16, n_thorough=120, big=True)
    r["violations"] = [(d, t) for (d, t, _) in r["violations"]][:3]
    return r


def replay(ctx):
    print(open(ctx["replay"]).read())
    return 0
