"""C06 — flush, compaction, caching and reopen never change query answers (E2 engine)."""
from . import e2gen as G
from . import ck as CK
from . import levels as LV

MODEL_TARGETS = ["theories/Spec/Machine.vo", "theories/Lsm/Levels.vo"]
PARAM_SECTIONS = ["levels"]
TRUSTED = ["the specification machine (Spec/Machine.v) treats rotate/flush/compaction/clean reopen as identities: "
           "every answer of the implementation is compared with it, so any dependence on physical placement shows as a difference"]
ASSUMPTIONS = ["background flush/compaction are disabled by options (huge memtable, high L0 trigger); placement is driven only by the script"]

OPTS = ["lc=1", "lc=2", "lc=3", "lc=4,bs=64,ips=64,ri=2", "lc=3,bs=64,ips=32,ri=1,bloom=0", "lc=2,comp=none/snappy,bs=128",
        "lc=3,cache=4096,bs=64", "lc=3,vlog=1,vth=4,vfs=256"]
PHYS = dict(rotate=6, flush=8, flush1=4, compact=12, compactauto=2, reopen=3, range=1, cur=4, sp=1, rbsp=1)
PROFILES = [
    dict(name="placement", opts=OPTS, weights=PHYS, length=(40, 110)),
    dict(name="delete-reinsert", opts=OPTS, weights=dict(PHYS, write=40, get=20), keys=["61", "62", "6162", "63"], length=(50, 120)),
]


LKEYS = ["61", "62", "63", "64", "65", "66", "67", "68"]


def layered(g):
    """prologue: tables with varied key ranges on several levels (narrow newest L0 tables over wide older
    ones, deeper tables below/above them), every key read back after each compaction"""
    rng = g.rng
    t = g.next_tx
    for rnd in range(rng.randint(3, 7)):
        lo = rng.randrange(len(LKEYS))
        hi = rng.randrange(lo, len(LKEYS))
        g.emit("e2 begin %d rw" % t)
        for k in LKEYS[lo:hi + 1]:
            if rng.random() < 0.3:
                g.emit("e2 del %d %s" % (t, k))
            else:
                g.emit("e2 set %d %s %s" % (t, k, g.val()))
        g.emit("e2 commit %d" % t)
        t += 1
        g.emit("e2 flush")
        if rng.random() < 0.45:
            g.emit("e2 compact %d" % rng.randint(0, max(0, g.lc - 1)))
            g.emit("e2 begin %d ro" % t)
            for k in LKEYS:
                g.emit("e2 get %d %s" % (t, k))
            g.emit("e2 scan %d - ~ f" % t)
            g.emit("e2 drop %d" % t)
            t += 1
    g.next_tx = t


def stacked(g):
    """prologue: a deeper table, then an older WIDE and a newer NARROW level-0 table over it, one
    compaction round, every key read back (the shape that decides whether table selection for a
    compaction covers all overlapping tables)"""
    rng = g.rng
    t = g.next_tx

    def txn(keys):
        nonlocal t
        g.emit("e2 begin %d rw" % t)
        for k in keys:
            if rng.random() < 0.3:
                g.emit("e2 del %d %s" % (t, k))
            else:
                g.emit("e2 set %d %s %s" % (t, k, g.val()))
        g.emit("e2 commit %d" % t)
        t += 1
        g.emit("e2 flush")

    def sub(minlen=1):
        lo = rng.randrange(len(LKEYS))
        hi = rng.randrange(lo, len(LKEYS))
        return LKEYS[lo:hi + 1]

    if rng.random() < 0.6:
        # deliberate shape: deeper table D, older wide level-0 table W overlapping D, newer narrow
        # level-0 table N strictly inside W and beside D (mirrored half of the time)
        ks = LKEYS if rng.random() < 0.5 else LKEYS[::-1]
        b = rng.randint(0, 3)
        a = rng.randint(0, b)
        e = rng.randint(b + 1, 5)
        f = rng.randint(e, 6)
        d = rng.randint(f + 1, 7)
        c = rng.randint(0, b)
        rng_keys = lambda i, j: sorted(ks[i:j + 1])
        txn(rng_keys(a, b))
        g.emit("e2 compact 0")
        txn(rng_keys(c, d))
        txn(rng_keys(e, f))
        g.emit("e2 compact 0")
        g.emit("e2 begin %d ro" % t)
        for k in LKEYS:
            g.emit("e2 get %d %s" % (t, k))
        g.emit("e2 scan %d - ~ f" % t)
        g.emit("e2 drop %d" % t)
        t += 1
    for rep in range(rng.randint(1, 2)):
        for _ in range(rng.randint(1, 2)):
            txn(sub())
            g.emit("e2 compact 0")
            if g.lc > 2 and rng.random() < 0.3:
                g.emit("e2 compact 1")
        for _ in range(rng.randint(2, 3)):
            txn(sub())
        g.emit("e2 compact %d" % rng.choice([0, 0, 0, 1]))
        g.emit("e2 begin %d ro" % t)
        for k in LKEYS:
            g.emit("e2 get %d %s" % (t, k))
        g.emit("e2 scan %d - ~ f" % t)
        g.emit("e2 drop %d" % t)
        t += 1
    g.next_tx = t


PROFILES.append(dict(name="stacked-tables", opts=["lc=2", "lc=3", "lc=4"], weights=dict(PHYS, write=10), keys=LKEYS,
                     prologue=stacked, length=(5, 20)))
PROFILES.append(dict(name="layout-shapes", opts=["lc=2", "lc=3", "lc=4", "lc=3,bs=64"], weights=dict(PHYS, write=20), keys=LKEYS,
                     prologue=layered, length=(10, 40)))


# readers that stay open while the data they read is rotated, flushed (into tables that also hold newer entries) and compacted
PROFILES.append(dict(name="open-readers", opts=OPTS, weights=dict(PHYS, begin=16, write=26, get=30, scan=10, commit=12, drop=3, reopen=0),
                     max_tx=6, keys=["61", "62", "6162", "63", "6100"], length=(60, 150)))


def nontrivial(lines, exp):
    ops = [l.split()[1] for l in lines]
    return ("compact" in ops or "flush" in ops) and any(o in ops for o in ("del", "sdel")) and ops.count("commit") >= 2


def explore(ctx):
    r = G.explore_profiles(ctx, "C06", PROFILES, nontrivial, n_quick=300, n_thorough=3000)
    r["coverage"]["rule"] = ("random API histories (sets, hard/soft deletes, replaces, re-insertions) with rotate / flush / "
                             "per-level compaction / auto compaction / clean reopen placed between operations, over an option grid "
                             "(level count 1-4, tiny blocks and index partitions, bloom on/off, compression, small cache, vlog); "
                             "non-trivial = a program with a delete, a flush or compaction and at least two commits; distinct by program text")
    r = CK.merge(r, CK.explore(ctx, "C06"))
    r["coverage"]["rule"] += ("; plus compaction-iterator cases: all version lists of one key up to length 3 (4 in thorough) x snapshot "
                              "subsets x bottom x versioning, and random multi-key multi-run cases, each checked against compact_key_view and against Lsm/CompactKey.v")
    # level structure (Lsm/Levels.v): invariant, point reads and steps of the extracted model on dumps of the running store
    r = LV.merge(r, LV.conformance(ctx, "C06", PROFILES, n_quick=240, n_thorough=700))
    return r


replay = G.replay
