"""C06 — flush, compaction, caching and reopen never change query answers (E2 engine)."""
from . import e2gen as G
from . import ck as CK

MODEL_TARGETS = ["theories/Spec/Machine.vo"]
TRUSTED = ["the specification machine (Spec/Machine.v) treats rotate/flush/compaction/clean reopen as identities: "
           "every answer of the implementation is compared with it, so any dependence on physical placement shows as a difference"]
ASSUMPTIONS = ["background flush/compaction are disabled by options (huge memtable, high L0 trigger); placement is driven only by the script"]

OPTS = ["lc=1", "lc=2", "lc=3", "lc=4,bs=64,ips=64,ri=2", "lc=3,bs=64,ips=32,ri=1,bloom=0", "lc=2,comp=none/snappy,bs=128",
        "lc=3,cache=4096,bs=64", "lc=3,vlog=1,vth=4,vfs=256"]
PHYS = dict(rotate=6, flush=8, flush1=4, compact=12, compactauto=2, reopen=3, range=1, cur=4, sp=1, rbsp=1)
PROFILES = [
    dict(name="placement", opts=OPTS, weights=PHYS, length=(40, 110)),
    dict(name="delete-reinsert", opts=OPTS, weights=dict(PHYS, write=40, get=20), keys=["61", "62", "6162", "63"], length=(50, 120)),
]


def nontrivial(lines, exp):
    ops = [l.split()[1] for l in lines]
    return ("compact" in ops or "flush" in ops) and any(o in ops for o in ("del", "sdel")) and ops.count("commit") >= 2


def explore(ctx):
    r = G.explore_profiles(ctx, "C06", PROFILES, nontrivial, n_quick=80, n_thorough=800)
    r["coverage"]["rule"] = ("random API histories (sets, hard/soft deletes, replaces, re-insertions) with rotate / flush / "
                             "per-level compaction / auto compaction / clean reopen placed between operations, over an option grid "
                             "(level count 1-4, tiny blocks and index partitions, bloom on/off, compression, small cache, vlog); "
                             "non-trivial = a program with a delete, a flush or compaction and at least two commits; distinct by program text")
    r = CK.merge(r, CK.explore(ctx, "C06"))
    r["coverage"]["rule"] += ("; plus compaction-iterator cases: all version lists of one key up to length 3 (4 in thorough) x snapshot "
                              "subsets x bottom x versioning, and random multi-key multi-run cases, each checked against compact_key_view and against Lsm/CompactKey.v")
    return r


replay = G.replay
