"""E4 — syscall tracing and crash-image enumeration.

A workload script runs in the harness under the LD_PRELOAD recorder (shim/libverifshim.so); from the
operation log the directory image at every operation boundary is materialised under both crash
models of C02 (process crash: every completed write kept; power loss: per file the fsynced content
plus a prefix of the unsynced writes, namespace operations in order); each image is opened by the
real engine and scanned; the scan must equal the state after some prefix of the commit order that
contains every acknowledged (resp. acknowledged-and-synced) commit."""
import os, shutil, subprocess, tempfile, json
from . import common as C

SHIM = os.path.join(C.VERIF, "shim", "libverifshim.so")
WORK = os.path.join(C.CACHE, "crash")


def build_shim():
    src = os.path.join(C.VERIF, "shim", "shim.c")
    with C.Lock("shim"):
        if not os.path.exists(SHIM) or os.path.getmtime(SHIM) < os.path.getmtime(src):
            rc, out = C.run("gcc -O2 -shared -fPIC -o %s %s -ldl -lpthread" % (SHIM, src))
            if rc != 0:
                raise C.Broken("shim build", out)


class FileObj:
    __slots__ = ("data", "synced", "pending")

    def __init__(self):
        self.data = bytearray()
        self.synced = b""        # content as of the last fsync
        self.pending = []        # operations since the last fsync: ("w", off, bytes) | ("t", len)

    def apply(self, op):
        if op[0] == "w":
            off, b = op[1], op[2]
            if off < 0:
                off = len(self.data)
            if off > len(self.data):
                self.data.extend(b"\0" * (off - len(self.data)))
            self.data[off:off + len(b)] = b
        else:
            n = op[1]
            if n < len(self.data):
                del self.data[n:]
            else:
                self.data.extend(b"\0" * (n - len(self.data)))

    def power_image(self, policy):
        """content after a power loss under `policy` in {none, half, allbutone}"""
        f = FileObj()
        f.data = bytearray(self.synced)
        ops = self.pending
        if policy == "none" or not ops:
            return bytes(f.data)
        if policy == "half":
            k = len(ops) // 2
            for op in ops[:k]:
                f.apply(op)
            op = ops[k]
            if op[0] == "w" and len(op[2]) > 1:
                off = op[1] if op[1] >= 0 else len(f.data)
                f.apply(("w", off, op[2][:len(op[2]) // 2]))
            return bytes(f.data)
        # allbutone: everything except the last byte of the last write
        for op in ops[:-1]:
            f.apply(op)
        op = ops[-1]
        if op[0] == "w":
            if len(op[2]) > 1:
                off = op[1] if op[1] >= 0 else len(f.data)
                f.apply(("w", off, op[2][:-1]))
        return bytes(f.data)


class FsSim:
    def __init__(self, root):
        self.root = root
        self.files = {}    # path -> FileObj
        self.dirs = set()
        self.fds = {}      # fd -> FileObj
        self.fdpos = {}    # fd -> position for non-append descriptors
        self.fdappend = {}

    def step(self, line):
        """apply one log line; returns True if it changed durable-relevant state (a cut point)"""
        t = line[0]
        if t == "O":
            _, fd, flags, path = line.split(" ", 3)
            fd = int(fd)
            f = self.files.get(path)
            if f is None:
                if "c" in flags:
                    f = FileObj()
                    self.files[path] = f
                else:
                    self.fds.pop(fd, None)
                    return False
            if "t" in flags and len(f.data) > 0:
                f.pending.append(("t", 0))
                f.apply(("t", 0))
            self.fds[fd] = f
            self.fdpos[fd] = 0
            self.fdappend[fd] = "a" in flags
            return "c" in flags or "t" in flags
        if t == "P":
            _, a, b = line.split()
            a, b = int(a), int(b)
            if a in self.fds:
                self.fds[b] = self.fds[a]
                self.fdpos[b] = self.fdpos.get(a, 0)
                self.fdappend[b] = self.fdappend.get(a, False)
            return False
        if t == "W":
            _, fd, off, n, hx = line.split(" ", 4)
            fd, off = int(fd), int(off)
            f = self.fds.get(fd)
            if f is None:
                return False
            b = bytes.fromhex(hx.strip())
            if off == -1:
                o = len(f.data)
            elif off == -2:
                o = self.fdpos.get(fd, 0)
                self.fdpos[fd] = o + len(b)
            else:
                o = off
            op = ("w", o, b)
            f.pending.append(op)
            f.apply(op)
            return True
        if t == "S":
            f = self.fds.get(int(line.split()[1]))
            if f is not None:
                f.synced = bytes(f.data)
                f.pending = []
                return True
            return False
        if t == "T":
            _, fd, n = line.split()
            f = self.fds.get(int(fd))
            if f is not None:
                op = ("t", int(n))
                f.pending.append(op)
                f.apply(op)
                return True
            return False
        if t == "R":
            _, a, b = line.rstrip("\n").split(" ", 2)
            if a in self.files:
                self.files[b] = self.files.pop(a)
            elif a in self.dirs:
                # directory rename: move every path below
                self.dirs.discard(a)
                self.dirs.add(b)
                for p in [p for p in self.files if p.startswith(a + "/")]:
                    self.files[b + p[len(a):]] = self.files.pop(p)
                for d in [d for d in self.dirs if d.startswith(a + "/")]:
                    self.dirs.discard(d)
                    self.dirs.add(b + d[len(a):])
            return True
        if t == "U":
            self.files.pop(line[2:].rstrip("\n"), None)
            return True
        if t == "D":
            self.dirs.add(line[2:].rstrip("\n"))
            return True
        if t == "X":
            self.dirs.discard(line[2:].rstrip("\n"))
            return True
        if t == "C":
            fd = int(line.split()[1])
            self.fds.pop(fd, None)
            return False
        return False

    def has_pending(self):
        return any(f.pending for f in self.files.values())

    def materialise(self, dst, policy):
        """write the image (policy: proc | none | half | allbutone) below dst, mapping self.root -> dst"""
        for d in sorted(self.dirs):
            if d.startswith(self.root):
                os.makedirs(dst + d[len(self.root):], exist_ok=True)
        for p, f in self.files.items():
            if not p.startswith(self.root):
                continue
            q = dst + p[len(self.root):]
            os.makedirs(os.path.dirname(q), exist_ok=True)
            content = bytes(f.data) if policy == "proc" else f.power_image(policy)
            with open(q, "wb") as out:
                out.write(content)


def trace(script_lines, root, fail=None, timeout=300):
    """run a workload under the recorder; returns (stdout lines, log lines)"""
    build_shim()
    os.makedirs(root, exist_ok=True)
    log = os.path.join(os.path.dirname(root), "oplog.txt")
    mark = os.path.join(os.path.dirname(root), "MARK")
    for p in (log, mark):
        if os.path.exists(p):
            os.remove(p)
    env = dict(C.ENV, VERIF_SHIM_ROOT=root, VERIF_SHIM_LOG=log, VERIF_MARK=mark, LD_PRELOAD=SHIM)
    if fail:
        env["VERIF_SHIM_FAIL"] = fail
    p = subprocess.run([C.HARNESS_BIN], input="\n".join(script_lines) + "\n", stdout=subprocess.PIPE, stderr=subprocess.PIPE,
                       text=True, timeout=timeout, env=env)
    lines = open(log, errors="replace").read().splitlines() if os.path.exists(log) else []
    return p.stdout.splitlines(), lines


def scan_images(image_dirs, opts, extra=None, timeout=1500):
    """open every image with the real engine and scan it; returns list of answers:
    ("ok", kvlist_line) | ("err", text).  `extra` = additional e2 lines run after the scan."""
    scripts = []
    for sh in C.shard(list(range(len(image_dirs))), C.NCPU):
        lines = []
        for i in sh:
            lines += ["e2 newat %s" % image_dirs[i], "e2 open %s" % opts, "e2 begin 1 ro", "e2 scan 1 - ~ f"]
            lines += (extra or [])
            lines += ["e2 close"]
        scripts.append((sh, lines))
    res = C.run_pairs([s[1] for s in scripts], sides=("impl",), timeout=timeout)
    per = 5 + len(extra or [])
    out = [None] * len(image_dirs)
    for (sh, lines), r in zip(scripts, res):
        ans = r["impl"][0]
        for j, i in enumerate(sh):
            a = ans[j * per:(j + 1) * per]
            out[i] = a
    return out


def state_after(commits, n):
    """commits: list of list of (kind, keyhex, valhex); returns sorted 'k=v,...' as the scan prints it"""
    def show(v):
        if v.startswith("rep:"):
            _, l, sd = v.split(":")
            b = C.rep(int(l), int(sd))
        else:
            b = b"" if v == "-" else bytes.fromhex(v)
        return "#%d/%s" % (len(b), C.fnv(b)) if len(b) > 16 else (b.hex() or "-")
    m = {}
    for batch in commits[:n]:
        for kind, k, v in batch:
            if kind in ("set", "repl"):
                m[k] = show(v)
            else:
                m.pop(k, None)
    items = sorted(m.items(), key=lambda kv: bytes.fromhex(kv[0]) if kv[0] != "-" else b"")
    return "list:" + ",".join("%s=%s" % kv for kv in items)
