"""C10 — time-travel reads and version history are exact and permanent (E2 engine, versioning on)."""
from . import e2gen as G
from . import ck as CK
from . import common as C

MODEL_TARGETS = ["theories/Spec/Machine.vo"]
TRUSTED = ["timestamps are script-controlled (manual logical clock installed through the facade); history queries are issued on "
           "transactions without pending writes (the read-your-writes overlay of history cursors is not modelled); complete "
           "forward / backward traversals, no mid-traversal reversals"]
ASSUMPTIONS = ["timestamps per key are non-decreasing in commit order (the generator enforces it) unless the version index is enabled"]

OPTS = ["lc=2,ver=1,vlog=1,vth=0", "lc=3,ver=1,vlog=1,vth=0,bs=64", "lc=1,ver=1,vlog=1,vth=0", "lc=2,ver=1,vlog=1,vth=0,idx=1"]
KEYS = ["61", "62", "6162", "63"]


class VGen(G.ProgGen):
    """ProgGen with a clock that only moves forward and versioned reads"""

    def __init__(self, *a, **kw):
        super().__init__(*a, **kw)
        self.clock = 0

    def tick(self):
        self.clock += self.rng.randint(1, 5)
        self.emit("e2 clock %d" % self.clock)

    def step(self):
        rng = self.rng
        r = rng.random()
        if r < 0.30:
            # one committed write transaction with a fresh timestamp
            self.tick()
            i = self.next_tx
            self.next_tx += 1
            self.emit("e2 begin %d rw" % i)
            for _ in range(rng.randint(1, 3)):
                k = self.key()
                kind = rng.choices(["set", "sdel", "del", "repl", "setat"], [10, 3, 2, 2, 3])[0]
                if kind == "set":
                    self.emit("e2 set %d %s %s" % (i, k, self.val()))
                elif kind == "setat":
                    self.emit("e2 setat %d %s %s %d" % (i, k, self.val(), self.clock))
                elif kind == "repl":
                    self.emit("e2 repl %d %s %s" % (i, k, self.val()))
                else:
                    self.emit("e2 %s %d %s" % (kind, i, k))
            self.emit("e2 commit %d" % i)
        elif r < 0.38:
            live = [i for i, t in self.tx.items() if not t["closed"]]
            if len(live) < self.max_tx:
                i = self.next_tx
                self.next_tx += 1
                self.emit("e2 begin %d ro" % i)
                self.tx[i] = dict(mode="ro", closed=False, curs=set())
        elif r < 0.62:
            cand = self.open_tx(readable=True)
            if not cand:
                i = self.next_tx
                self.next_tx += 1
                self.emit("e2 begin %d ro" % i)
                self.tx[i] = dict(mode="ro", closed=False, curs=set())
                cand = [i]
            t = rng.choice(cand)
            q = rng.random()
            if q < 0.5:
                self.emit("e2 getat %d %s %d" % (t, self.key(), rng.randint(0, self.clock + 3)))
            else:
                lo, hi = rng.choice([("-", "ff"), ("61", "63"), ("6162", "ff"), ("62", "62")])
                tsr = "~" if rng.random() < 0.6 else "%d-%d" % tuple(sorted((rng.randint(0, self.clock + 2), rng.randint(0, self.clock + 2))))
                lim = "~" if rng.random() < 0.75 else str(rng.randint(0, 4))
                self.emit("e2 history %d %s %s %d %s %s %s" % (t, lo, hi, rng.randint(0, 1), tsr, lim, rng.choice("fb")))
        elif r < 0.70:
            cand = self.open_tx()
            if cand:
                i = rng.choice(cand)
                self.emit("e2 drop %d" % i)
                self.tx.pop(i, None)
        elif r < 0.97:
            op = rng.choices(["flush", "rotate", "compact", "flush1"], [5, 2, 8, 1])[0]
            if op == "compact":
                self.emit("e2 compact %d" % rng.randint(0, max(0, self.lc - 1)))
            else:
                self.emit("e2 " + op)
        else:
            self.emit("e2 reopen")
            self.tx, self.cur = {}, {}

    def finish(self):
        i = self.next_tx
        self.next_tx += 1
        self.emit("e2 begin %d ro" % i)
        self.emit("e2 history %d - ff 1 ~ ~ f" % i)
        self.emit("e2 history %d - ff 0 ~ ~ b" % i)
        for k in self.keys:
            for t in (0, self.clock // 2, self.clock, self.clock + 1):
                self.emit("e2 getat %d %s %d" % (i, k, t))
        return self.lines, self.exp


class OGen(VGen):
    """out-of-order explicit timestamps (version index enabled): time-travel point reads only,
    sets and soft deletes only (no barriers), so that 'greatest timestamp <= T' is unambiguous"""

    def step(self):
        rng = self.rng
        r = rng.random()
        if r < 0.40:
            i = self.next_tx
            self.next_tx += 1
            self.emit("e2 begin %d rw" % i)
            for _ in range(rng.randint(1, 3)):
                k = self.key()
                # distinct timestamps per key: the property does not say which of two versions
                # with the same timestamp a time-travel read must prefer
                used = self.__dict__.setdefault("used_ts", {}).setdefault(k, set())
                free = [t for t in range(1, 31) if t not in used]
                if not free:
                    continue
                ts = rng.choice(free)
                used.add(ts)
                if rng.random() < 0.8:
                    self.emit("e2 setat %d %s %s %d" % (i, k, self.val(), ts))
                else:
                    self.emit("e2 sdelat %d %s %d" % (i, k, ts))
            self.emit("e2 commit %d" % i)
        elif r < 0.75:
            cand = self.open_tx(readable=True)
            if not cand or rng.random() < 0.3:
                i = self.next_tx
                self.next_tx += 1
                self.emit("e2 begin %d ro" % i)
                self.tx[i] = dict(mode="ro", closed=False, curs=set())
                cand = [i]
            self.emit("e2 getat %d %s %d" % (rng.choice(cand), self.key(), rng.randint(0, 32)))
        elif r < 0.80:
            cand = self.open_tx()
            if cand:
                i = rng.choice(cand)
                self.emit("e2 drop %d" % i)
                self.tx.pop(i, None)
        elif r < 0.97:
            op = rng.choices(["flush", "rotate", "compact"], [6, 2, 6])[0]
            self.emit("e2 compact %d" % rng.randint(0, max(0, self.lc - 1)) if op == "compact" else "e2 " + op)
        else:
            self.emit("e2 reopen")
            self.tx, self.cur = {}, {}

    def finish(self):
        i = self.next_tx
        self.next_tx += 1
        self.emit("e2 begin %d ro" % i)
        for k in self.keys:
            for t in (0, 5, 10, 15, 20, 25, 31):
                self.emit("e2 getat %d %s %d" % (i, k, t))
        return self.lines, self.exp


def nontrivial(lines, exp):
    ops = [l.split()[1] for l in lines]
    return "compact" in ops and any(o in ops for o in ("del", "repl")) and ops.count("commit") >= 3


def explore(ctx):
    import types
    pf = [dict(name="versioned", opts=OPTS[:3], keys=KEYS, max_tx=3, length=(30, 90))]
    # use VGen instead of ProgGen
    orig = G.ProgGen
    G.ProgGen = VGen
    try:
        r = G.explore_profiles(ctx, "C10", pf, nontrivial, classify=classify, n_quick=200, n_thorough=3000)
        G.ProgGen = OGen
        pf2 = [dict(name="out-of-order-index", opts=[OPTS[3], "lc=3,ver=1,vlog=1,vth=0,idx=1,bs=64"], keys=KEYS[:3], max_tx=2, length=(30, 80))]
        r2 = G.explore_profiles(dict(ctx, seed=ctx["seed"] + 77), "C10", pf2, lambda l, e: any(x.split()[1] == "flush" for x in l),
                                classify=classify, n_quick=120, n_thorough=1500)
        r["violations"] += r2["violations"]
        r["known"] += r2["known"]
        r["disagreements"] += r2["disagreements"]
        for k in ("evaluations", "distinct_nontrivial", "programs", "disagreements_checked", "failing_programs"):
            r["coverage"][k] = r["coverage"].get(k, 0) + r2["coverage"].get(k, 0)
        r["coverage"]["profiles"].update(r2["coverage"]["profiles"])
        r["coverage"]["samples"] += r2["coverage"]["samples"]
        # version index with MANY entries (several B+tree leaves, inserts between existing entries): complete forward and
        # backward histories through the index against the specification
        G.ProgGen = VGen
        pf3 = [dict(name="index-volume", opts=[OPTS[3]], keys=["6b%02x" % i for i in range(48)], max_tx=2, length=(500, 700))]
        r3 = G.explore_profiles(dict(ctx, seed=ctx["seed"] + 177), "C10", pf3, lambda l, e: sum(1 for x in l if x.split()[1] == "commit") >= 100,
                                classify=classify, n_quick=6, n_thorough=80)
        r["violations"] += r3["violations"]
        r["known"] += r3["known"]
        r["disagreements"] += r3["disagreements"]
        for k in ("evaluations", "distinct_nontrivial", "programs", "disagreements_checked", "failing_programs"):
            r["coverage"][k] = r["coverage"].get(k, 0) + r3["coverage"].get(k, 0)
        r["coverage"]["profiles"].update(r3["coverage"]["profiles"])
    finally:
        G.ProgGen = orig
    r = CK.merge(r, CK.explore(ctx, "C10", versioning=True, n_quick=1500, n_thorough=20000))
    c = crash_part(ctx)
    r["violations"] += [(d, t) for (d, t, _) in c["violations"]][:3]
    cc = c["coverage"]
    r["coverage"]["evaluations"] += cc["evaluations"]
    r["coverage"]["distinct_nontrivial"] += cc["distinct_nontrivial"]
    r["coverage"]["crash_images"] = cc.get("images")
    r["coverage"]["crash_verdicts"] = cc.get("verdicts")
    r["coverage"]["rule"] = ("histories of timestamped sets / soft deletes / hard deletes / replaces with a script-driven clock (non-decreasing "
                             "timestamps), time-travel reads at random timestamps, complete forward and backward history traversals with all "
                             "option combinations (tombstones, timestamp range, limit), flush/compaction/reopen placed anywhere, readers held open "
                             "across compactions; non-trivial = a compaction, a hard delete or replace, and at least 3 commits; plus crash images of versioned stores "
                             "with the version index: every image must reopen with a prefix of the commit order and the history through the index must "
                             "equal the history of the LSM back-end")
    return r


def hist_check(imgs, answers, opts, script, log):
    """crash images of a store with the version index: after recovery the history answered through the index (idx=1)
    must equal the history answered by the LSM back-end (idx=0) on a copy of the same recovered image, and the
    time-travel read of every key at the last timestamp must agree too.  Returns [(desc, replay_text)]."""
    import shutil, os
    from . import crashwl as CW
    pick = [(d, ci, pol) for (d, ci, pol), a in zip(imgs, answers) if a and len(a) > 3 and a[1] == "ok" and a[3].startswith("list:")]
    if len(pick) > 60:
        # namespace operations first (manifest switch, unlink), then a sample.  Every image at most once: the same
        # directory opened by two harness processes at the same time makes the second `open` fail on the store's LOCK
        # file (that was the intermittent `index hist: / LSM err:NoTxn`); the sample is topped up to 60 distinct images
        prio = [x for x in pick if log[x[1]][:1] in ("R", "U", "S")]
        sel = dict.fromkeys(prio[:40] + pick[::max(1, len(pick) // 20)][:20])
        for x in pick:
            if len(sel) >= 60:
                break
            sel.setdefault(x)
        pick = list(sel)
    pick = list(dict.fromkeys(pick))
    scripts, meta = [], []
    for d, ci, pol in pick:
        d2 = d + "_lsm"
        shutil.rmtree(d2, ignore_errors=True)
        shutil.copytree(d, d2)
        for dd, o in ((d, opts), (d2, opts.replace("idx=1", "idx=0"))):
            scripts.append(["e2 newat %s" % dd, "e2 open %s" % o, "e2 begin 1 ro", "e2 history 1 - ff 1 ~ ~ f", "e2 close"])
        meta.append((d, ci, pol))
    out = []
    if not scripts:
        return out
    res = C.run_pairs(scripts, sides=("impl",), timeout=900)

    def read_side(r):
        """(history line, None) when the side opened, began and answered the history query; (None, what happened) otherwise"""
        a, err, rc = r["impl"]
        if len(a) > 3 and a[0] == "ok" and a[1] == "ok" and a[2] == "ok" and a[3].startswith("hist:"):
            return a[3], None
        names = ("newat", "open", "begin", "history", "close")
        what = ", ".join("%s -> %s" % (n, a[i][:160] if i < len(a) else "<no answer>") for i, n in enumerate(names))
        return None, "%s (exit code %s%s)" % (what, rc, ", stderr: " + err.strip()[-200:] if err.strip() else "")

    def report(desc, ci):
        text = ["# property=C10", "# oracle: " + desc[:900], "# options: " + opts, "# workload:"] + ["> " + l for l in script]
        text += ["# log tail before the cut:"] + ["#   " + l[:160] for l in log[max(0, ci - 10):ci + 1]]
        out.append((desc[:600], "\n".join(text) + "\n"))

    for j, (d, ci, pol) in enumerate(meta):
        ha, ea = read_side(res[2 * j])
        hb, eb = read_side(res[2 * j + 1])
        shutil.rmtree(d + "_lsm", ignore_errors=True)
        if ea is not None or eb is not None:
            # a side that cannot be read is reported as that, never compared with the other one
            sides = [n for n, e in (("through the index (idx=1, the image itself)", ea), ("through the LSM back-end (idx=0, a copy of the image)", eb)) if e]
            report("the crash image at operation %d (%s), model=%s, reopened and scanned correctly, but its version history cannot be read back %s: %s"
                   % (ci, log[ci][:60], pol, " nor ".join(sides), " | ".join(e for e in (ea, eb) if e)), ci)
        elif ha != hb:
            report("after recovery of the crash image at operation %d (%s), model=%s, the version history through the index differs from the "
                   "history of the LSM back-end: index %s / LSM %s" % (ci, log[ci][:60], pol, ha[:150], hb[:150]), ci)
        if len(out) >= 2:
            break
    return out


def crash_part(ctx):
    from . import crashwl as CW
    return CW.explore(dict(ctx, seed=ctx["seed"] + 4000), "C10", {"open-failed", "acked-lost", "not-a-prefix"}, n_quick=5, n_thorough=30,
                      opts_pool=["lc=2,ver=1,vlog=1,vth=0,idx=1", "lc=2,ver=1,vlog=1,vth=0,idx=1,foc=1", "lc=2,ver=1,vlog=1,vth=8,vfs=512,idx=1"],
                      extra_check=hist_check)


def classify(lines, exp, got):
    """F22: a history query with a timestamp range whose answer equals the 'filter by timestamp first'
    semantics (Spec/Versioned.v spec_history_tsfirst, extracted) although the specification differs"""
    last = lines[-1].split()
    if last[1] == "history" and last[6] != "~" and got and got[-1].startswith("hist:"):
        alt = lines[:-1] + ["e2 history_tsfirst " + " ".join(last[2:])]
        r = C.run_pairs([alt], sides=("model",))[0]["model"][0]
        if r and r[-1] == got[-1]:
            return "history_ts_range_hides_barrier"
    return None


replay = G.replay
