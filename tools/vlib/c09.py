"""C09 — range cursors enumerate exactly the live keys, in order, in both directions (E2 engine)."""
from . import e2gen as G
from . import ri as RI

MODEL_TARGETS = ["theories/Spec/Machine.vo", "theories/Txn/RangeIter.vo"]
TRUSTED = ["cursor specification = Spec/Cursor.v over the sorted list of live keys in [lo, hi) of the transaction's view; "
           "seek targets are drawn inside the bounds and after running off an end only seeks are issued (as the property states)"]
ASSUMPTIONS = []

OPTS = ["lc=1", "lc=2,bs=64,ips=32,ri=1", "lc=3,bs=64,ips=64,ri=2", "lc=4,bs=128,bloom=0", "lc=3", "lc=2,vlog=1,vth=2,vfs=128"]
W = dict(begin=5, write=30, get=2, scan=8, range=8, cur=60, sp=0, rbsp=0, commit=8, rollback=1, drop=1,
         rotate=4, flush=6, flush1=2, compact=6, compactauto=0, reopen=1)
KEYS = ["61", "6162", "616263", "62", "6200", "62ff", "63", "ff", "00", "6161", "7a", "61ff", "6100"]


def spread(g):
    """prologue: spread versions of the keys over tables of several levels, immutables, the active memtable"""
    rng = g.rng
    t = g.next_tx
    for rnd in range(rng.randint(1, 4)):
        g.emit("e2 begin %d rw" % t)
        for k in rng.sample(g.keys, rng.randint(1, len(g.keys))):
            if rng.random() < 0.25:
                g.emit("e2 %s %d %s" % (rng.choice(["del", "sdel"]), t, k))
            else:
                g.emit("e2 set %d %s %s" % (t, k, g.val()))
        g.emit("e2 commit %d" % t)
        t += 1
        r = rng.random()
        if r < 0.5:
            g.emit("e2 flush")
            if rng.random() < 0.6:
                g.emit("e2 compact %d" % rng.randint(0, max(0, g.lc - 1)))
        elif r < 0.7:
            g.emit("e2 rotate")
    g.next_tx = t


PROFILES = [
    dict(name="cursor-walks", opts=OPTS, weights=W, keys=KEYS, max_tx=3, length=(50, 140), prologue=spread),
    dict(name="reversals-small", opts=OPTS, weights=dict(W, cur=80, write=20), keys=KEYS[:6], max_tx=2, length=(50, 120), prologue=spread),
    dict(name="writeset-overlay", opts=OPTS, weights=dict(W, write=45, cur=60, commit=3), keys=KEYS[:8], max_tx=2, length=(50, 120), prologue=spread),
]


def nontrivial(lines, exp):
    """a cursor program with at least one change of direction while positioned on an entry"""
    last = {}
    for l, e in zip(lines, exp):
        t = l.split()
        if t[1] == "cur" and t[3] in ("next", "prev"):
            p = last.get(t[2])
            if p and p != t[3] and e != "cur:invalid":
                return True
            last[t[2]] = t[3]
    return False


def explore(ctx):
    r = G.explore_profiles(ctx, "C09", PROFILES, nontrivial, n_quick=300, n_thorough=4000)
    r["coverage"]["rule"] = ("cursor programs (seek-first/last, seek inside the bounds, next, prev with reversals at random positions) over key sets "
                             "spread by a prologue over write set, active and immutable memtables and tables on several levels with tiny blocks / "
                             "index partitions; bounds present, absent, empty and inverted; non-trivial = a direction reversal on a positioned cursor")
    r = RI.merge(r, RI.explore(ctx, "C09"))
    r["coverage"]["rule"] += ("; plus the overlay layer alone through the public API (fresh store, one committed transaction, a second "
                              "transaction holding values and tombstones, range_with_options): every committed subset x write-set over 3 keys "
                              "(quick; 4 keys and bounded / empty / inverted ranges in thorough) x EVERY program to depth 4-5 over "
                              "{first, last, next, prev, seek below/on/between/above} with only seeks after an unpositioned answer, compared as "
                              "digests with the reference cursor over the merged live list and with Txn/RangeIter.v; plus random larger "
                              "multi-byte-key cases with programs of 8-40 operations")
    return r


def replay(ctx):
    text = open(ctx["replay"]).read()
    if any(l.startswith("> ri ") for l in text.splitlines()):
        return RI.replay(ctx)
    return G.replay(ctx)
