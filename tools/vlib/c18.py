"""C18 — the B+tree index is a persistent ordered map.

Engine: programs over the public `surrealkv::bplustree` API (insert / delete / get / range /
internal_iterator / close+reopen) run on the implementation (harness `bpt` engine, which also reads
the tree file back without the crate and reconstructs the allocator's call sequence from the
recorded header / trunk-page writes) and on the extracted models:
  * Misc/OMap.v (+ Misc/BptKey.v: the two key orders, the range entry point) answers every command;
  * Misc/Pages.v replays the allocator call sequence (second pass, `pg` engine) and must predict
    the page handed out by every allocate_page and the header / trunk chain after every command.
Python holds the property oracle: answers = ordered-map answers; page accounting: file length =
total_pages * PAGE_SIZE, {1..total_pages-1} = pages reachable from the root (+ overflow chains)
(+) trunk pages (+) trunk entries (disjoint), free_page_count = number of entries, the reachable set =
pages allocated and not freed according to the reconstructed call sequence, and the structural
checks of the file reader (ordering inside nodes, separators, leaf chain, equal depth)."""
import os, re
from . import common as C

PARAM_SECTIONS = ["bpt"]

MODEL_TARGETS = ["theories/Misc/BptInst.vo"]
TRUSTED = [
    "harness/src/bpt.rs reads the B+tree file independently of the crate (layout constants restated there; compared with "
    "Params.v through `bpt params`) and reconstructs allocate_page/free_page calls from the header and trunk-page writes "
    "recorded by the add-only facade src/verif/bpt.rs (a std::fs::File wrapper implementing the crate's vfs::File)",
    "node split / merge / redistribution are NOT modelled structurally: they are tied to Misc/OMap.v only through the "
    "differential (answers) and through the page-accounting invariants checked on the file",
    "the trunk chain is modelled as the list of trunk pages in link order (next_trunk = page of the following element)",
]
ASSUMPTIONS = [
    "single-threaded use of one BPlusTree value; no crash between writes (C18 is about close/reopen, not about torn writes)",
    "timestamp order: keys are user_key ++ 8-byte trailer ++ 8-byte timestamp (length >= 16), as TimestampComparator requires",
]

PS = 4096
LEAF_MAX_LOCAL = 996
INT_MAX_LOCAL = 999
OVF_CAP = 4083
TRUNK_MAX = 1020
MUT = ("new", "ins", "del", "reopen")
K_SEP = "bpt_leaf_redistribute_keeps_separator_overflow"
K_RANGE = "bpt_range_excluded_empty_start"
K_CURSOR = "bpt_cursor_stops_at_empty_leaf"


# --------------------------------------------------------------------------- program generation
def h8(x):
    return "%016x" % x


class Keys:
    """a pool of distinct keys for one program; key i is a token (see harness/src/bpt.rs `tok`)"""

    def __init__(self, rng, mode, profile):
        self.rng, self.mode, self.profile = rng, mode, profile
        self.cache = {}
        self.salt = rng.randint(0, 200)

    def user(self, i):
        """user-key token of index i under the profile (never '-': callers handle emptiness)"""
        r = C.Rng(self.salt * 1000003 + i)
        p = self.profile
        if p == "tiny":
            return "%02x" % (i % 256) if i < 256 else "%02x%02x" % (i // 256 % 256, i % 256)
        if p == "medium":
            n = r.choice([4, 8, 12, 20, 33, 40])
            return ("%08x" % (i * 2654435761 % 2**32)) + ("+rep:%d:%d" % (n, i % 251) if n else "")
        if p == "prefix":
            # long common prefix, difference at the end
            n = r.choice([60, 120, 300])
            return "rep:%d:7+%06x" % (n, i)
        if p == "deepprefix":
            n = r.choice([1000, 1200, 1200, 4200])
            return "rep:%d:7+%06x" % (n, i * 40503 % 2**24)
        if p == "sepfill":
            # separators of very different sizes below the internal local limit: a parent that is nearly full cannot take a longer one
            n = r.choice([5, 40, 300, 600, 800, 900, 960, 990, 996])
            return "%06x+rep:%d:%d" % (i * 40503 % 2**24, n, i % 97)
        if p == "bigcell":
            return "%06x" % (i * 40503 % 2**24)
        if p == "bigkey":
            n = r.choice([960, 975, 990, 994, 995, 996, 997, 1000, 1003, 1100, 1400, 2000])
            return "%06x+rep:%d:%d" % (i * 40503 % 2**24, n, i % 97)
        if p == "hugekey":
            n = r.choice([999, 1000, 4080, 4100, 4600, 9000])
            return "%06x+rep:%d:%d" % (i * 40503 % 2**24, n, i % 97)
        raise ValueError(p)

    def key(self, i):
        if i in self.cache:
            return self.cache[i]
        u = self.user(i)
        if self.mode == "ts":
            r = C.Rng(self.salt * 7 + i * 13 + 1)
            k = "%s+%s+%s" % (u, h8((r.randint(1, 50) << 8) | r.choice([0, 1, 2, 6])), h8(r.choice([0, 1, 5, 2**40, 2**64 - 1, i % 7])))
        else:
            k = u
        self.cache[i] = k
        return k

    def variant(self, i):
        """a key that compares Equal to key i but has other bytes (ts order only: another trailer)"""
        k = self.key(i)
        if self.mode != "ts":
            return k
        parts = k.split("+")
        parts[-2] = h8((self.rng.randint(51, 99) << 8) | self.rng.choice([0, 2, 7]))
        return "+".join(parts)


def value_tok(rng, profile, klen_hint=8):
    p = profile
    seed = rng.randint(0, 250)
    if p == "tiny":
        n = rng.choice([0, 1, 3, 8, 20, 100, 300, 700])
    elif p in ("medium", "prefix"):
        n = rng.choice([0, 10, 50, 120, 200, 400, 480])
    elif p == "bigcell":
        n = rng.choice([900, 950, 980, 985, 990, 992, 993, 994, 996, 700, 500])
    elif p in ("bigkey", "hugekey", "deepprefix", "sepfill"):
        n = rng.choice([0, 1, 10, 30, 100])
    elif p == "ovf":
        n = rng.choice([990, 996, 997, 1000, 1500, 4000, 4083, 4084, 4570, 5000, 8166, 8200, 9000, 20000, 40000])
    else:
        n = rng.randint(0, 64)
    return "rep:%d:%d" % (n, seed) if n else "-"


PROFILES = ["tiny", "medium", "prefix", "sepfill", "deepprefix", "bigcell", "bigkey", "hugekey", "ovfmix", "churn-ovf", "freelist"]


class Prog:
    def __init__(self, rng, mode, profile, scale):
        self.rng, self.mode, self.profile, self.scale = rng, mode, profile, scale
        kp = {"ovfmix": "medium", "churn-ovf": "tiny", "freelist": "medium"}.get(profile, profile)
        if mode == "ts" and kp == "tiny":
            kp = "medium"
        self.keys = Keys(rng, mode, kp)
        self.kp = kp
        self.vp = {"ovfmix": "ovf", "churn-ovf": "ovf", "freelist": "medium"}.get(profile, kp)
        self.lines = ["bpt new %s" % ("ts" if mode == "ts" else "bytes")]
        self.present = set()
        self.next_i = 0

    def emit(self, s):
        self.lines.append("bpt " + s)

    def val(self):
        rng = self.rng
        if self.profile == "ovfmix" and rng.random() < 0.6:
            return value_tok(rng, "medium")
        if self.profile == "churn-ovf" and rng.random() < 0.5:
            return value_tok(rng, "tiny")
        return value_tok(rng, self.vp)

    def ins_new(self, n, order):
        idx = list(range(self.next_i, self.next_i + n))
        self.next_i += n
        # index order and key order are unrelated for hashed profiles: sort by a cheap proxy when asked
        if order == "desc":
            idx.reverse()
        elif order == "rand":
            self.rng.shuffle(idx)
        for i in idx:
            self.emit("ins %s %s" % (self.keys.key(i), self.val()))
            self.present.add(i)

    def delete_some(self, frac, order):
        cur = sorted(self.present)
        k = max(1, int(len(cur) * frac)) if cur else 0
        if order == "asc":
            sel = cur[:k]
        elif order == "desc":
            sel = cur[::-1][:k]
        elif order == "mid":
            a = max(0, len(cur) // 2 - k // 2)
            sel = cur[a:a + k]
        else:
            sel = self.rng.sample(cur, k)
        for i in sel:
            self.emit("del %s" % (self.keys.variant(i) if self.rng.random() < 0.2 else self.keys.key(i)))
            self.present.discard(i)

    def overwrite(self, n):
        cur = sorted(self.present)
        for i in (self.rng.sample(cur, min(n, len(cur))) if cur else []):
            k = self.keys.variant(i) if self.rng.random() < 0.4 else self.keys.key(i)
            v = value_tok(self.rng, self.rng.choice([self.vp, "ovf", "tiny"])) if self.rng.random() < 0.5 else self.val()
            self.emit("ins %s %s" % (k, v))

    def anykey(self):
        rng = self.rng
        hi = max(1, self.next_i + 3)
        i = rng.randrange(hi)
        return self.keys.variant(i) if rng.random() < 0.15 else self.keys.key(i)

    def bound(self):
        rng = self.rng
        x = rng.random()
        if x < 0.2:
            return "u"
        return rng.choice(["i:", "e:"]) + self.anykey()

    def probes(self, n):
        rng = self.rng
        for _ in range(n):
            x = rng.random()
            if x < 0.45:
                self.emit("get %s" % self.anykey())
            elif x < 0.75:
                self.emit("range %s %s" % (self.bound(), self.bound()))
            elif x < 0.9:
                self.emit("seek %s %d %s" % (self.anykey(), rng.choice([0, 1, 3, 12, 40]), rng.choice("fb")))
            else:
                self.emit("scan %s" % rng.choice("fb"))

    def churn(self, n):
        rng = self.rng
        for _ in range(n):
            x = rng.random()
            if x < 0.45 or not self.present:
                if rng.random() < 0.7:
                    self.ins_new(1, "asc")
                else:
                    self.overwrite(1)
            elif x < 0.85:
                self.delete_some(0.0, "rand")
            else:
                self.probes(1)

    def checkpoint(self):
        self.emit("stats")

    def build(self):
        rng, S = self.rng, self.scale
        p = self.profile
        per = {"tiny": 120, "medium": 260, "prefix": 160, "bigcell": 90, "bigkey": 70, "sepfill": 80, "deepprefix": 50, "hugekey": 36, "ovfmix": 140, "churn-ovf": 120,
               "freelist": 60}[p]
        per = max(8, int(per * S * rng.uniform(0.5, 1.3)))
        if self.mode == "bytes" and rng.random() < 0.15:
            # the empty key, and the range entry point's treatment of an empty start key
            self.emit("ins - %s" % self.val())
            self.emit("range i:- u")
            if rng.random() < 0.5:
                self.emit("range e:- u")
        if p == "freelist":
            # one value large enough that freeing its chain fills more than one trunk page
            big = rng.choice([TRUNK_MAX + 3, TRUNK_MAX + 40, 2 * TRUNK_MAX + 30]) * OVF_CAP + rng.randint(1, 900)
            self.ins_new(rng.randint(3, 30), "rand")
            self.emit("ins %s rep:%d:%d" % (self.keys.key(10**6), big, rng.randint(0, 250)))
            self.checkpoint()
            if rng.random() < 0.5:
                self.emit("reopen")
            self.emit("del %s" % self.keys.key(10**6))
            self.checkpoint()
            if rng.random() < 0.5:
                self.emit("reopen")
            # consume the free list again: many medium cells and a few large values
            self.vp = "ovf"
            self.ins_new(rng.randint(20, 60), "rand")
            self.checkpoint()
            self.emit("ins %s rep:%d:%d" % (self.keys.key(10**6 + 1), big // rng.choice([1, 2, 3]), rng.randint(0, 250)))
            self.checkpoint()
            self.delete_some(0.5, "rand")
            self.checkpoint()
        rounds = rng.randint(2, 4)
        for r in range(rounds):
            self.ins_new(per, rng.choice(["asc", "desc", "rand", "rand"]))
            self.checkpoint()
            self.probes(rng.randint(2, 8))
            if rng.random() < 0.5:
                self.emit("reopen")
                self.probes(rng.randint(1, 4))
            if rng.random() < 0.6:
                self.overwrite(rng.randint(1, max(2, per // 4)))
            self.delete_some(rng.choice([0.3, 0.6, 0.9, 1.0]), rng.choice(["asc", "desc", "rand", "mid"]))
            self.checkpoint()
            self.emit("scan %s" % rng.choice("fb"))
            if rng.random() < 0.4:
                self.emit("reopen")
                self.checkpoint()
            self.probes(rng.randint(1, 5))
            if rng.random() < 0.6:
                self.churn(rng.randint(10, max(12, per // 2)))
                self.checkpoint()
        if rng.random() < 0.5:
            self.delete_some(1.0, rng.choice(["asc", "desc", "rand"]))
            self.checkpoint()
            self.ins_new(rng.randint(1, 20), "rand")
        self.emit("reopen")
        self.checkpoint()
        self.emit("scan f")
        self.emit("scan b")
        self.emit("range u u")
        return self.lines


def gen_program(rng, i, scale):
    mode = "ts" if i % 3 == 2 else "bytes"
    weights = {"tiny": 2, "medium": 3, "prefix": 2, "bigcell": 3, "bigkey": 3, "sepfill": 3, "deepprefix": 2, "hugekey": 2, "ovfmix": 3, "churn-ovf": 2, "freelist": 1}
    prof = rng.choices(list(weights), list(weights.values()))[0]
    return Prog(rng, mode, prof, scale).build(), dict(mode=mode, profile=prof)


# --------------------------------------------------------------------------- running and checking
def parse_ranges(s):
    out = set()
    if s in ("-", ""):
        return out
    for part in s.split(","):
        if "-" in part:
            a, b = part.split("-")
            out.update(range(int(a), int(b) + 1))
        else:
            out.add(int(part))
    return out


def split_tail(line):
    """impl answer -> (head, tr, st)"""
    if " | " in line:
        head, tail = line.split(" | ", 1)
        m = re.match(r"tr=(\S+) (st=\S+)$", tail)
        if m:
            return head, m.group(1), m.group(2)
        return head, None, tail
    return line, None, None


def run_impl_model(programs, timeout=1700):
    """first pass: every program on both sides (programs are sharded round-robin over NCPU processes)"""
    idx = C.shard(list(range(len(programs))), C.NCPU * 2)
    scripts = [[l for i in sh for l in programs[i]] for sh in idx]
    res = C.run_pairs(scripts, sides=("impl", "model"), timeout=timeout)
    impl = [None] * len(programs)
    model = [None] * len(programs)
    errs = []
    for sh, r in zip(idx, res):
        pi, pm = 0, 0
        il, ml = r["impl"][0], r["model"][0]
        total = sum(len(programs[i]) for i in sh)
        if len(il) != total:
            errs.append("implementation side answered %d of %d commands (rc=%s): %s" % (len(il), total, r["impl"][2], r["impl"][1][-300:]))
        if len(ml) != total:
            errs.append("model side answered %d of %d commands (rc=%s): %s" % (len(ml), total, r["model"][2], r["model"][1][-300:]))
        for i in sh:
            n = len(programs[i])
            impl[i] = il[pi:pi + n]
            model[i] = ml[pm:pm + n]
            pi += n
            pm += n
    return impl, model, errs


def pg_script(lines, impl):
    """second pass script for one program: the allocator calls the implementation made, per command"""
    out, where = [], []
    for j, l in enumerate(lines):
        t = l.split()
        if t[1] not in MUT:
            continue
        if j >= len(impl):
            break
        _, tr, _ = split_tail(impl[j])
        if t[1] == "new":
            out.append("pg new")
        else:
            out.append("pg run %s" % (tr if tr and "?" not in tr else "-"))
        where.append(j)
    return out, where


def run_pg(programs, impls):
    scripts, wheres = [], []
    for lines, impl in zip(programs, impls):
        s, w = pg_script(lines, impl or [])
        scripts.append(s)
        wheres.append(w)
    idx = C.shard(list(range(len(programs))), C.NCPU)
    res = C.run_pairs([[l for i in sh for l in scripts[i]] for sh in idx], sides=("model",))
    out = [None] * len(programs)
    for sh, r in zip(idx, res):
        ml = r["model"][0]
        p = 0
        for i in sh:
            n = len(scripts[i])
            out[i] = ml[p:p + n]
            p += n
    return out, wheres


class Verdict:
    def __init__(self):
        self.violation = None      # (line index, description)
        self.vclass = None         # known-class identifier of the violation, when it can be told
        self.disagree = None       # (line index, description)
        self.known = []
        self.feat = dict(max_height=0, freelist_reuse=0, unlink=0, trunks2=0, trunks3=0, iovf=0, lovf=0, merges=0, reopen=0, dels_after_split=0,
                         emptied=0)


def check_program(lines, impl, model, pg, pgwhere, kf):
    v = Verdict()
    f = v.feat
    live = {1}
    total_seen = 2
    last_st = None
    prev_leaves = None
    split_seen = False
    pgmap = dict(zip(pgwhere, pg or []))

    def viol(j, d, cls=None):
        if v.violation is None:
            v.violation = (j, d)
            v.vclass = cls

    role = {}
    muts_since_stats = 0
    instrumented = True
    last_empty = 0

    def dis(j, d):
        if v.disagree is None:
            v.disagree = (j, d)

    for j, l in enumerate(lines):
        t = l.split()
        op = t[1]
        il = impl[j] if impl and j < len(impl) else "<missing>"
        ml = model[j] if model and j < len(model) else "<missing>"
        head, tr, st = split_tail(il)
        if il == "<missing>" or head.startswith("PANIC") or head.startswith("err:"):
            viol(j, "`%s` failed: %s" % (l[:120], head[:300]))
            break
        # ---- answers: implementation vs ordered map
        if op == "stats":
            mhead = ml
            ihead = head
        else:
            ihead = head
            mhead = ml
        faithful, spec, known = mhead, mhead, None
        if " !spec=" in mhead:
            faithful, rest = mhead.split(" !spec=", 1)
            spec = rest
            if " known=" in rest:
                spec, known = rest.split(" known=", 1)
        if op == "params":
            pass
        elif ihead != spec:
            if ihead == faithful and known and known in kf:
                v.known.append(kf[known])
            else:
                # a cursor that ends early while the leaf chain holds an empty leaf
                cut = op in ("scan", "seek") and muts_since_stats == 0 and last_empty > 0 and (
                    ihead in ("invalid", "list:") or (spec.startswith(ihead + ",")))
                viol(j, "`%s`: the B+tree answers %s, an ordered map answers %s%s" % (
                    l[:160], ihead[:240], spec[:240], " — the cursor ends early and the leaf chain holds an empty leaf" if cut else ""),
                    K_CURSOR if cut else None)
                break
        elif ihead != faithful:
            dis(j, "model (Misc/BptKey.v) predicts a deviation on `%s` that the implementation does not show: impl=%s model=%s" % (l[:120], ihead[:200], faithful[:200]))
        # ---- allocator trace
        if op in MUT:
            if op != "new":
                muts_since_stats += 1
                if muts_since_stats > 1:
                    instrumented = False
            if op == "new":
                live = {1}
                total_seen = 2
            if op == "reopen":
                f["reopen"] += 1
            if tr is None:
                dis(j, "no allocator trace on `%s`: %s" % (l[:80], il[:200]))
            else:
                if "?" in tr:
                    dis(j, "header/trunk writes of `%s` are not a sequence of allocate_page/free_page effects: %s" % (l[:80], tr))
                elif tr != "-":
                    mh = re.match(r"st=\d+,(\d+),", last_st or "st=0,0,")
                    head_before = int(mh.group(1)) if mh else 0
                    for o in tr.split(","):
                        p = int(o[1:])
                        if o[0] == "a" and p == head_before and p != 0:
                            f["unlink"] += 1
                        if o[0] == "a":
                            if p in live:
                                viol(j, "`%s`: allocate_page handed out page %d which is in use" % (l[:120], p))
                            if p < total_seen:
                                f["freelist_reuse"] += 1
                            else:
                                total_seen = p + 1
                            live.add(p)
                        else:
                            if p not in live:
                                viol(j, "`%s`: free_page(%d) of a page that is not allocated (double free)" % (l[:120], p))
                            live.discard(p)
                if j in pgmap:
                    want = "%s %s" % ("tr=" + tr, st)
                    if pgmap[j] != want:
                        dis(j, "Misc/Pages.v and allocate_page/free_page differ on `%s`: impl=%s model=%s" % (l[:80], want[:300], pgmap[j][:300]))
                elif pg is not None:
                    dis(j, "no model answer for the allocator calls of `%s`" % l[:80])
                last_st = st
                if st:
                    m = re.match(r"st=(\d+),(\d+),(\d+),\[(.*)\]$", st)
                    if m and m.group(4).count(";") >= 1:
                        f["trunks2"] = 1
                    if m and m.group(4).count(";") >= 2:
                        f["trunks3"] = 1
            if op == "del" and split_seen and head != "val:none":
                f["dels_after_split"] += 1
        # ---- page accounting read back from the file
        if op == "stats" and " | " in il:
            kv = dict(x.split("=", 1) for x in il.split(" | ", 1)[1].split(" ") if "=" in x)
            try:
                total = int(kv["total"])
                flen = int(kv["flen"])
                trunks = parse_ranges(kv["trunks"])
                free = parse_ranges(kv["free"])
                lv = parse_ranges(kv["live"])
                entries = int(kv["entries"])
                stm = re.match(r"(\d+),(\d+),(\d+),\[(.*)\]$", kv["st"])
                count = int(stm.group(3))
            except Exception as e:
                dis(j, "unparsable stats line: %s (%s)" % (il[:300], e))
                continue
            muts_since_stats = 0
            last_empty = int(kv.get("empty", "0"))
            if kv["problems"] != "-":
                probs = kv["problems"].split(";")
                stale = all(re.match(r"(ikey-chain-length@\S+|separator-(above-right|not-above-left)-subtree@\S+\*|internal-keys-not-ascending@\S+\*)$", x) for x in probs)
                viol(j, "the tree file is structurally wrong after `%s`: %s" % (lines[j - 1][:100] if j else "", kv["problems"][:300]),
                     K_SEP if stale and lines[j - 1].split()[1] == "del" else None)
                break
            if flen != total * PS:
                viol(j, "file length %d != total_pages %d * %d" % (flen, total, PS))
            universe = set(range(1, total))
            union = lv | trunks | free
            leaked = universe - union
            outside = union - universe
            overlap = (lv & trunks) | (lv & free) | (trunks & free)
            if leaked:
                sep_leak = instrumented and all(role.get(p) == "iovf" for p in leaked) and lines[j - 1].split()[1] == "del"
                viol(j, "leaked pages (neither reachable from the root nor in the free list): %s%s" % (
                    sorted(leaked)[:20], " — last seen as overflow chain of an internal-node key" if sep_leak else ""), K_SEP if sep_leak else None)
            for nm, rl in (("nodes", "node"), ("lovfp", "lovf"), ("iovfp", "iovf")):
                for p in parse_ranges(kv.get(nm, "-")):
                    role[p] = rl
            if outside:
                viol(j, "pages beyond total_pages in use: %s" % sorted(outside)[:20])
            if overlap:
                viol(j, "pages both in use and free, or twice in the free list: %s" % sorted(overlap)[:20])
            if count != entries or len(free) != entries:
                viol(j, "header free_page_count %d, trunk entries %d (distinct %d)" % (count, entries, len(free)))
            if lv != live and not leaked and not overlap:
                dis(j, "pages reachable in the file %s.. differ from allocated-minus-freed by the reconstructed calls %s.." % (
                    sorted(lv ^ live)[:10], len(live)))
            if last_st is not None and "st=" + kv["st"] != last_st:
                dis(j, "header/trunk chain in the file (%s) differs from the one implied by the recorded writes (%s)" % (kv["st"][:200], last_st[:200]))
            h = int(kv["height"])
            f["max_height"] = max(f["max_height"], h)
            if h >= 2:
                split_seen = True
            if int(kv["iovf"]) > 0:
                f["iovf"] = 1
            if int(il.split(" ")[1].split("=")[1]) > 0:
                f["lovf"] = 1
            lvs = int(kv["leaves"])
            if prev_leaves is not None and lvs < prev_leaves:
                f["merges"] = 1
            if prev_leaves is not None and prev_leaves > 1 and il.startswith("n=0 "):
                f["emptied"] = 1
            prev_leaves = lvs
            if v.violation:
                break
    return v


def nontrivial(feat):
    return feat["max_height"] >= 2 and (feat["dels_after_split"] > 0 or feat["lovf"] or feat["iovf"])


def evaluate(programs, kf):
    impl, model, errs = run_impl_model(programs)
    pg, wheres = run_pg(programs, impl)
    out = []
    for lines, i, m, g, w in zip(programs, impl, model, pg, wheres):
        out.append(check_program(lines, i or [], m or [], g, w, kf))
    return out, impl, model, pg, wheres, errs


def instrument(lines):
    """page accounting after every mutating command"""
    out = []
    for l in lines:
        if l == "bpt stats":
            continue
        out.append(l)
        if l.split()[1] in ("ins", "del", "reopen"):
            out.append("bpt stats")
    return out


def fails_like(lines, kind, kf, inst=True):
    """re-run one program (with page accounting after every mutating command); True iff it still shows a verdict of
    that kind; a violation counts only if its class is not a listed finding"""
    ls = instrument(lines) if inst else lines
    vs, impl, model, pg, wh, errs = evaluate([ls], kf)
    v = vs[0]
    if kind == "violation":
        bad = v.violation is not None and not (v.vclass and v.vclass in kf)
    else:
        bad = v.disagree is not None and v.violation is None
    return bad, v, impl[0], model[0], pg[0], wh[0], ls


def shrink(lines, kind, kf, budget):
    cur = [l for l in lines if l != "bpt stats"]
    ok, v, _i, _m, _p, _w, ls = fails_like(cur, kind, kf)
    if not ok:
        return cur
    j = (v.violation if kind == "violation" else v.disagree)[0]
    cur = [l for l in ls[:j + 1] if l != "bpt stats"]
    tries = 0
    n = 2
    while len(cur) > 2 and tries < budget:
        chunk = max(1, (len(cur) - 1) // n)
        removed = False
        k = 1
        while k < len(cur) and tries < budget:
            cand = cur[:k] + cur[k + chunk:]
            if len(cand) < 2:
                k += chunk
                continue
            tries += 1
            if fails_like(cand, kind, kf)[0]:
                cur = cand
                removed = True
            else:
                k += chunk
        if not removed:
            if chunk == 1:
                break
            n *= 2
    ok, v, _i, _m, _p, _w, ls = fails_like(cur, kind, kf)
    if ok:
        j = (v.violation if kind == "violation" else v.disagree)[0]
        cur = [l for l in ls[:j + 1] if l != "bpt stats"]
    return cur


def replay_text(desc, lines, kf):
    ok, v, impl, model, pg, wh, lines = fails_like(lines, "violation", kf)
    pgmap = dict(zip(wh, pg or []))
    out = ["# property=C18", "# oracle: " + desc]
    for i, l in enumerate(lines):
        out.append("> " + l)
        out.append("IMPL:  " + ((impl[i] if impl and i < len(impl) else "<missing>")[:600]))
        out.append("OMAP:  " + ((model[i] if model and i < len(model) else "<missing>")[:600]))
        if i in pgmap:
            out.append("PAGES: " + pgmap[i][:600])
    return "\n".join(out) + "\n"


def explore(ctx):
    tier = ctx["tier"]
    rng = C.Rng(ctx["seed"] * 1000003 + 18)
    res = dict(violations=[], known=[], disagreements=[])
    if not ctx["have_model"]:
        res["disagreements"].append("model side unavailable (extraction/driver did not build)")
        res["coverage"] = {"evaluations": 0, "distinct_nontrivial": 0}
        return res
    kf = C.known_findings("C18")
    # Params cross-check: the file reader's constants vs Params.v vs the side conditions
    r = C.run_pairs([["bpt params"]])[0]
    ip, mp = (r["impl"][0] or ["<missing>"])[0], (r["model"][0] or ["<missing>"])[0]
    if not mp.endswith(" ok=true") or mp[:-len(" ok=true")] != ip:
        res["disagreements"].append("B+tree layout constants: harness reader `%s` vs Params.v/side conditions `%s`" % (ip, mp))
    n = 640 if tier == "quick" else 6400
    scale = 1.0 if tier == "quick" else 1.3
    programs, meta = [], []
    cdir = os.path.join(C.VERIF, "corpus", "C18")
    if os.path.isdir(cdir):
        for fn in sorted(os.listdir(cdir)):
            ls = [l[2:] for l in open(os.path.join(cdir, fn)).read().splitlines() if l.startswith("> ")]
            if ls:
                programs.append(ls)
                meta.append(dict(mode="corpus", profile="corpus:" + fn))
    if programs:
        # the corpus first, on its own: a failing corpus program is reported at once (a damaged tree can make the
        # bulk run below very slow)
        v0 = evaluate(programs, kf)[0]
        early = [(lines, v, m) for lines, v, m in zip(programs, v0, meta) if v.violation and not (v.vclass and v.vclass in kf)]
        if early:
            lines, v, m = early[0]
            desc = "%s (corpus program %s)" % (v.violation[1], m["profile"])
            res["violations"].append((desc, replay_text(desc, lines[:v.violation[0] + 1], kf)))
            res["coverage"] = {"evaluations": sum(len(p_) for p_ in programs), "distinct_nontrivial": 0, "programs": len(programs),
                               "rule": "corpus programs only: one of them fails, the random exploration was not run"}
            return res
    for i in range(n):
        ls, m = gen_program(rng, i, scale)
        programs.append(ls)
        meta.append(m)
    verdicts, impl, model, pg, wheres, errs = evaluate(programs, kf)
    res["disagreements"] += errs[:5]
    evals = sum(len(p) for p in programs)
    distinct = set()
    feats = {}
    profs = {}
    opmix = {}
    bad_v, bad_d = [], []
    for lines, v, m in zip(programs, verdicts, meta):
        key = m["mode"] + "/" + m["profile"]
        profs[key] = profs.get(key, 0) + 1
        for l in lines:
            o = l.split()[1]
            opmix[o] = opmix.get(o, 0) + 1
        for k, x in v.feat.items():
            if k == "max_height":
                feats[k] = max(feats.get(k, 0), x)
            else:
                feats[k] = feats.get(k, 0) + (1 if x else 0)
        if nontrivial(v.feat):
            distinct.add(C.fnv("\n".join(lines).encode()))
        res["known"] += v.known
        if v.violation:
            bad_v.append((lines, v, m))
        elif v.disagree:
            bad_d.append((lines, v, m))
    budget = 120 if tier == "quick" else 400
    seen = set()
    unknown = []
    known_hits = {}
    # page accounting after every command up to the failure tells which object a leaked / damaged page belonged to
    # (one batch, all failing programs whose class cannot be told from the sparse accounting)
    need = [(lines, v, m) for lines, v, m in bad_v if not (v.vclass and v.vclass in kf)]
    inst_v = evaluate([instrument(lines[:v.violation[0] + 1]) for lines, v, m in need], kf)[0] if need else []
    reclass = {id(lines): v2 for (lines, v, m), v2 in zip(need, inst_v)}
    for lines, v, m in bad_v:
        cls = v.vclass
        if not (cls and cls in kf):
            v2 = reclass[id(lines)]
            cls = v2.vclass if v2.violation else None
            if not (cls and cls in kf):
                unknown.append((lines, v, m))
                continue
        res["known"].append(kf[cls])
        known_hits[cls] = known_hits.get(cls, 0) + 1
    for lines, v, m in unknown[:4]:
        small = shrink(lines, "violation", kf, budget)
        ok, v2, *_ = fails_like(small, "violation", kf)
        desc = (v2.violation if ok else v.violation)[1]
        sig = re.sub(r"\d+", "#", desc)[:80]
        if sig in seen:
            continue
        seen.add(sig)
        desc = "%s (order %s, profile %s, %d commands after shrinking)" % (desc, m["mode"], m["profile"], len(small))
        res["violations"].append((desc, replay_text(desc, small, kf)))
    for lines, v, m in bad_d[:3]:
        small = shrink(lines, "disagree", kf, budget // 2)
        ok, v2, *_ = fails_like(small, "disagree", kf, inst=False)
        d = (v2.disagree if ok else v.disagree)[1]
        res["disagreements"].append("%s [program: %s]" % (d, " ; ".join(x[4:] for x in small)[:1500]))
    res["coverage"] = {
        "evaluations": evals, "distinct_nontrivial": len(distinct), "programs": len(programs),
        "disagreements_checked": evals + sum(len(w) for w in wheres),
        "allocator_calls_replayed_on_Pages_v": sum(0 if not i else sum((split_tail(x)[1] or "-").count("a") + (split_tail(x)[1] or "-").count("f") for x in i) for i in impl),
        "failing_programs": len(bad_v), "failing_programs_of_listed_classes": known_hits, "failing_programs_unlisted": len(unknown),
        "disagreeing_programs": len(bad_d),
        "rule": "programs of 100-2500 commands over both key orders (bytewise; timestamp with keys user||trailer||ts incl. keys that compare "
                "Equal with different bytes), key/value size profiles: tiny keys, medium, long common prefixes, cells at the local-payload limit "
                "(4 cells per leaf), keys around/above the internal-node local limit (separator overflow chains) up to multi-page keys, values "
                "from 0 to 40000 bytes (overflow chains, chunk boundaries 4083/4084/8166), one value of > 1020 overflow pages (second trunk page, "
                "trunk unlink); phases: bulk insert asc/desc/random, overwrites changing sizes, bulk delete asc/desc/middle/random down to empty, "
                "random churn, reopen at random points, get/range (all bound kinds)/seek+steps/scans in both directions; page accounting after every "
                "phase. non-trivial = reached height >= 2 and then deleted entries, or used an overflow chain; distinct by program text",
        "features_programs": feats, "profiles": profs, "op_mix": opmix,
        "samples": [" ; ".join(l[4:] for l in programs[-1][:25])[:1500]],
        "exhaustive": False,
    }
    return res


def replay(ctx):
    text = open(ctx["replay"]).read()
    lines = [l[2:] for l in text.splitlines() if l.startswith("> ")]
    if not lines:
        print(text)
        return 1
    kf = C.known_findings("C18")
    ok, v, impl, model, pg, wh, lines = fails_like(lines, "violation", {}, inst=False)
    pgmap = dict(zip(wh, pg or []))
    for i, l in enumerate(lines):
        print("> " + l)
        print("IMPL:  " + (impl[i] if impl and i < len(impl) else "<missing>")[:600])
        print("OMAP:  " + (model[i] if model and i < len(model) else "<missing>")[:600])
        if i in pgmap:
            print("PAGES: " + pgmap[i][:600])
    print("verdict: %s" % (v.violation[1] if v.violation else (v.disagree[1] if v.disagree else "agrees with the ordered map and the page accounting")))
    return 0
