"""C15 — a failed commit leaves no trace and does not poison later commits (engine E5).

Two levels.

(S) store level: sequential E2 workloads run in the harness under the LD_PRELOAD recorder with ONE
    injected fault (shim/shim.c, $VERIF_SHIM_FAIL): the fault index sweeps over every data operation
    (write / fsync) that the fault-free run of the same script performs on a path class (`wal/`,
    `sstables/`, `manifest/`, `vlog/`), for every fault kind, transient and sticky.  Per run the
    python oracle checks (a) the commit answers, (b) live invisibility of every failed commit and
    live visibility of every acknowledged one (a probe scan follows every command), (c) that the
    store keeps answering (no hang, no panic; a failure without a fresh fault must be sticky), and
    (d) the crash images at the end of the run (process crash and the three power-loss policies of
    crashwl): the recovered state must be the state built from EXACTLY the acknowledged commits.
(W) writer level: the WAL manager (src/wal/manager.rs, writer.rs, BufferedFileWriter over
    std::io::BufWriter<File>) driven through the facade surrealkv::verif::walfail under the same
    shim, against the extracted Coq model Crash/Fail.v (`wf` scripts on both sides): per-command
    results, the bytes of every segment and what the reader delivers must agree; the oracle
    (delivered records == acknowledged appends) is evaluated on every case and the failing cases are
    classified with the model's executable class predicates (the ones the theorems of Props/C15.v
    are stated with)."""
import os, shutil, re, itertools, subprocess, time
from concurrent.futures import ThreadPoolExecutor
from . import common as C
from . import crash as K

PID = "C15"
MODEL_TARGETS = ["theories/Crash/FailInst.vo", "theories/Conc/PipeFail.vo"]
PARAM_SECTIONS = ["c15", "wal"]
TRUSTED = [
    "LD_PRELOAD recorder and fault injector shim/shim.c (one fault plan per process: the n-th matching write/fsync fails; "
    "short writes are real short writes) and the file-system simulator tools/vlib/crash.py (crash models of C02)",
    "sequential workloads: the commit order is the script order; the interleavings of the commit pipeline are covered by the "
    "Coq LTS Conc/PipeFail.v (theorems) and one scripted multi-task regression run (e2 qoverflow), not by a schedule search (that is E3, C05/C17)",
    "std::io::BufWriter<File> is modelled (Crash/Fail.v: write_all / write_all_cold / flush_buf with its BufGuard) and tied to the "
    "code by the writer-level differential only",
]
ASSUMPTIONS = [
    "a failed write(2)/fsync(2) has no effect other than the bytes the call reports as written (the shim implements exactly that); "
    "the Linux behaviour of marking dirty pages clean after a failed fsync is outside the crash model",
    "fsync persists what it is called on; directory entries are durable in operation order (crash model of C02)",
]
WORK = os.path.join(K.WORK, PID)

CLASSES = {
    # class -> short mechanism text (the long text lives in known_findings.json)
    "wal_synced_failed_commit_replayed": "the record is in the segment when the fsync of a sync commit fails; the commit fails, recovery replays it",
    "wal_durable_apply_failed_replayed": "the record is logged, memtable apply fails; recovery replays the failed commit",
    "vlog_write_error_swallowed": "a value-log write error is swallowed (BufWriter drop at file rotation / deferred flush): the flush succeeds, value pointers reference bytes that were never written",
    "vlog_rotation_without_fsync": "a value-log file that fills up is replaced without fsync (fault-free defect of C02/C03; a failed flush whose retry re-appends the values makes it reachable in workloads whose fault-free run never rotates)",
    "torn_vlog_file_blocks_reopen": "a failed flush leaves a value-log file with a torn header / entry; the next open refuses the directory",
}


# ===================================================================== workloads (store level)
class Txn:
    def __init__(self, tid, writes, sync):
        self.tid, self.writes, self.sync = tid, writes, sync
        self.begin_line = self.commit_line = self.probe_line = None

    def keys(self):
        return {w[1] for w in self.writes}


SHARED = ["61", "62", "6162"]


def gen_items(rng, profile):
    """items: ('txn', Txn) | ('pair', Txn, Txn) (overlapping transactions, second one conflicts) | ('phys', cmd)"""
    items = []
    tid = [0]
    vcount = [0]

    def txn(big=0, nkeys=None, valsize=0):
        tid[0] += 1
        t = tid[0]
        ws = []
        vcount[0] += 1
        uniq = "75%02x" % t
        if big:
            ws.append(("set", uniq, "rep:%d:%d" % (big, t)))
        elif valsize:
            for j in range(nkeys or 3):
                ws.append(("set", "75%02x%02x" % (t, j), "rep:%d:%d" % (valsize, (t * 7 + j) & 255)))
        elif profile == "vlog":
            for j in range(rng.randint(1, 3)):
                ws.append(("set", uniq if j == 0 else rng.choice(SHARED), "rep:%d:%d" % (rng.choice([9, 20, 40]), (t * 5 + j) & 255)))
        else:
            ws.append(("set", uniq, "%04x" % (0x1000 + vcount[0])))
            for _ in range(rng.randint(0, 2) if nkeys is None else nkeys - 1):
                k = rng.choice(SHARED)
                if rng.random() < 0.75:
                    vcount[0] += 1
                    ws.append(("set", k, "%04x" % (0x1000 + vcount[0])))
                else:
                    ws.append(("del", k, None))
        return Txn(t, ws, rng.random() < 0.35)

    if profile == "small":
        for _ in range(rng.randint(4, 6)):
            r = rng.random()
            if r < 0.60:
                items.append(("txn", txn()))
            elif r < 0.68:
                items.append(("phys", "flushwal %d" % rng.randint(0, 1)))
            elif r < 0.76:
                items.append(("phys", "rotate"))
            elif r < 0.83:
                items.append(("phys", "flush"))
            else:
                a, b = txn(), txn()
                k = rng.choice(SHARED)
                a.writes.append(("set", k, "aa%02x" % a.tid))
                b.writes.append(("set", k, "bb%02x" % b.tid))
                items.append(("pair", a, b))
        items.append(("txn", txn()))
    elif profile == "big":
        # a record of more than one block: two or three write calls, header and data flushed apart
        items.append(("txn", txn()))
        items.append(("txn", txn(big=rng.choice([32760, 33000, 40000, 70000]))))
        for _ in range(rng.randint(2, 3)):
            items.append(("txn", txn()))
        if rng.random() < 0.5:
            items.insert(rng.randint(1, len(items) - 1), ("phys", rng.choice(["flushwal 1", "rotate"])))
    elif profile == "arena":
        # multi-key transactions of about a third of the memtable: ArenaFull inside apply, rotation, relog
        for _ in range(rng.randint(4, 6)):
            items.append(("txn", txn(nkeys=rng.randint(2, 4), valsize=rng.choice([500, 700, 900]))))
    elif profile in ("lsm", "vlog"):
        for _ in range(rng.randint(5, 8)):
            r = rng.random()
            if r < 0.55:
                items.append(("txn", txn()))
            elif r < 0.80:
                items.append(("phys", "flush"))
            elif r < 0.95:
                items.append(("phys", "compact 0"))
            else:
                items.append(("phys", "rotate"))
        items.append(("phys", "flush"))
        items.append(("txn", txn()))
    return items


PROFILE_OPTS = {
    "small": ["lc=2", "lc=3,bs=64", "lc=1", "lc=2,foc=1"],
    "big": ["lc=2"],
    "arena": ["lc=2,mem=4096", "lc=2,mem=3072"],
    "lsm": ["lc=2", "lc=3,bs=64", "lc=2,vlog=1,vth=8,vfs=256"],
    "vlog": ["lc=2,vlog=1,vth=8,vfs=256", "lc=2,vlog=1,vth=8,vfs=64"],
}


class Workload:
    def __init__(self, items, opts, ending="abort", profile=""):
        self.items, self.opts, self.ending, self.profile = items, opts, ending, profile

    def compile(self, root):
        """script lines; fills the line indices of the transactions.  Every commit / physical command
        is preceded by `e2 mark s<line>` (delimits its region of the operation log) and followed by a probe."""
        L = ["e2 newat %s/db" % root, "e2 open %s" % self.opts]
        self.txns = []        # in commit order
        self.steps = []       # (kind, line, obj) for commits and physical commands, in order

        def probe():
            L.append("e2 begin 900 ro")
            L.append("e2 scan 900 - ~ f")
            return len(L) - 1

        def begin(t):
            t.begin_line = len(L)
            L.append("e2 begin %d rw" % t.tid)
            for kind, k, v in t.writes:
                L.append("e2 set %d %s %s" % (t.tid, k, v) if kind == "set" else "e2 del %d %s" % (t.tid, k))

        def commit(t):
            L.append("e2 mark s%d" % (len(L) + 1))
            t.commit_line = len(L)
            L.append("e2 %s %d" % ("commitsync" if t.sync else "commit", t.tid))
            t.probe_line = probe()
            self.txns.append(t)
            self.steps.append(("commit", t.commit_line, t))

        for it in self.items:
            if it[0] == "txn":
                begin(it[1])
                commit(it[1])
            elif it[0] == "pair":
                begin(it[1])
                begin(it[2])
                commit(it[1])
                commit(it[2])
            else:
                L.append("e2 mark s%d" % (len(L) + 1))
                line = len(L)
                L.append("e2 " + it[1])
                pl = probe()
                self.steps.append(("phys", line, (it[1], pl)))
        L.append("e2 mark s%d" % (len(L) + 1))
        L.append("e2 " + self.ending)
        self.script = L
        return L

    def show(self):
        out = []
        for it in self.items:
            if it[0] == "txn":
                out.append("T%d%s{%s}" % (it[1].tid, "s" if it[1].sync else "", ",".join("%s=%s" % (w[1], w[2] or "del") for w in it[1].writes)))
            elif it[0] == "pair":
                out.append("overlap(T%d,T%d)" % (it[1].tid, it[2].tid))
            else:
                out.append(it[1])
        return "%s | %s | %s" % (self.opts, " ; ".join(out), self.ending)


# ===================================================================== running and reading the log
HANG_INFO = {}


def run_traced(script, wd, fail=None, timeout=90):
    """one harness process under the recorder; returns (answers, log lines, status)"""
    root = os.path.join(wd, "root")
    if os.path.exists(wd):
        shutil.rmtree(wd)
    os.makedirs(root)
    K.build_shim()
    log_p = os.path.join(wd, "oplog.txt")
    env = dict(C.ENV, VERIF_SHIM_ROOT=root, VERIF_SHIM_LOG=log_p, VERIF_MARK=os.path.join(wd, "MARK"), LD_PRELOAD=K.SHIM)
    if fail:
        env["VERIF_SHIM_FAIL"] = fail
    p = subprocess.Popen([C.HARNESS_BIN], stdin=subprocess.PIPE, stdout=subprocess.PIPE, stderr=subprocess.PIPE, text=True, env=env)
    status = "done"
    try:
        so, se = p.communicate("\n".join(script) + "\n", timeout=timeout)
    except subprocess.TimeoutExpired:
        # where are the threads?  (kept for the replay text)
        info = []
        try:
            for t in sorted(os.listdir("/proc/%d/task" % p.pid)):
                b = "/proc/%d/task/%s/" % (p.pid, t)
                rd = lambda f: open(b + f).read().strip() if os.path.exists(b + f) else "?"
                info.append("%s %s state=%s wchan=%s" % (t, rd("comm"), rd("stat").split(")")[-1].split()[0] if os.path.exists(b + "stat") else "?", rd("wchan")))
        except OSError:
            pass
        p.kill()
        so, se = p.communicate()
        status = "timeout"
        HANG_INFO[wd] = info
    out = so.splitlines()
    log = open(log_p, errors="replace").read().splitlines() if os.path.exists(log_p) else []
    if status == "timeout":
        return out, log, status
    for l in log:
        if l.startswith("W "):
            m = re.fullmatch(r"W -?\d+ -?\d+ (\d+) ([0-9a-f]*)", l)
            if not m or len(m.group(2)) != 2 * int(m.group(1)):
                return out, log, "damaged-log"       # recorder anomaly (as in crashwl): never judge a damaged log
    return out, log, "done"


def data_ops(log, substr):
    """the data operations (in log order) on paths containing substr: list of ('w', len) | ('s',)"""
    fd = {}
    ops = []
    for l in log:
        t = l[:1]
        if t == "O":
            p = l.split(" ", 3)
            fd[int(p[1])] = p[3]
        elif t == "P":
            _, a, b = l.split()
            if int(a) in fd:
                fd[int(b)] = fd[int(a)]
        elif t == "C":
            fd.pop(int(l.split()[1]), None)
        elif t == "W":
            p = l.split(" ", 4)
            if substr in fd.get(int(p[1]), ""):
                ops.append(("w", int(p[3])))
        elif t == "S":
            if substr in fd.get(int(l.split()[1]), ""):
                ops.append(("s",))
        elif t == "F":
            m = re.search(r"fd=(\d+)", l)
            if m and substr in fd.get(int(m.group(1)), ""):
                if "short=" in l:
                    continue          # the short write itself was logged as W
                ops.append(("s",) if "fsync" in l else ("w", 0))
    return ops


def regions(log):
    """marker s<line> -> (first, last) index of its region in the log"""
    starts = [(i, int(l[3:])) for i, l in enumerate(log) if re.fullmatch(r"M s\d+", l)]
    out = {}
    for j, (i, line) in enumerate(starts):
        out[line] = (i, starts[j + 1][0] if j + 1 < len(starts) else len(log))
    return out


def fault_lines(log, reg):
    return [l for l in log[reg[0]:reg[1]] if l.startswith("F ")]


def acks_info(log):
    """(number of acks, number of leading acks that are power-durable) at the end of the log"""
    n, dur = 0, 0
    for l in log:
        if l.startswith("M ack "):
            n += 1
            if l.split()[3] == "1":
                dur = n
        elif l.startswith("M synced"):
            dur = n
    return n, dur


def final_images(log, dbroot, workdir, policies=("proc", "none", "half", "allbutone")):
    sim = K.FsSim(dbroot)
    for l in log:
        if not l.startswith("M ") and not l.startswith("F "):
            sim.step(l)
    out = []
    pend = sim.has_pending()
    for pol in policies:
        if pol != "proc" and not pend:
            continue
        d = os.path.join(workdir, "img_" + pol)
        if os.path.exists(d):
            shutil.rmtree(d)
        os.makedirs(d)
        sim.materialise(d, pol)
        out.append((d, pol))
    return out


# ===================================================================== the oracle (store level)
def status_of(ans):
    if ans == "ok":
        return "ok"
    if ans == "err:Conflict":
        return "conflict"
    if ans is None:
        return "none"
    if ans.startswith("PANIC"):
        return "panic"
    if "Batch_too_large" in ans or "BatchTooLarge" in ans or "too_large" in ans:
        return "refused"
    return "fail"


def state_of(batches):
    return K.state_after(batches, len(batches))


def explain(got, attempts, need):
    """the least bad reading of an observed state: which acknowledged commits are missing and which failed commits
    show (a failed commit may show with a PREFIX of its writes: partial apply).  Returns None or
    (lost [ordinals among the acknowledged], shown [(attempt index, k writes, of n)], n_present)."""
    acked_idx = [i for i, (s, w) in enumerate(attempts) if s == "ok"]
    gm = dict(x.split("=") for x in got[5:].split(",") if x) if got.startswith("list:") else None
    if gm is None:
        return None
    writers = {}
    for i, (s, w) in enumerate(attempts):
        for kind, k, v in w:
            writers.setdefault(k, set()).add(i)
    # candidate inclusion levels per attempt (0 = absent, n = all writes), pruned with the keys only it writes
    cands = []
    for i, (s, w) in enumerate(attempts):
        opts = [0, len(w)] if s == "ok" else list(range(0, len(w) + 1))
        keep = []
        for lv in opts:
            ok = True
            for j, (kind, k, v) in enumerate(w):
                if len(writers[k]) == 1 and kind == "set" and not any(k2 == k for _, k2, _ in w[j + 1:]):
                    if (j < lv) != (k in gm):
                        ok = False
                        break
            if ok:
                keep.append(lv)
        if not keep:
            return None
        cands.append(keep)
    total = 1
    for c in cands:
        total *= len(c)
    if total > 20000:
        return None
    best = None
    for combo in itertools.product(*cands):
        seq = [w[:lv] for (s, w), lv in zip(attempts, combo) if lv]
        if state_of(seq) != got:
            continue
        present = [i for i in acked_idx if combo[i]]
        top = max([acked_idx.index(i) + 1 for i in present], default=0)
        lost = [o for o in range(max(need, top)) if not combo[acked_idx[o]]]
        shown = [(i, lv, len(attempts[i][1])) for i, lv in enumerate(combo) if lv and attempts[i][0] != "ok"]
        bad = (len(lost), len(shown), sum(1 for x in shown if x[1] < x[2]))
        if best is None or bad < best[0]:
            best = (bad, lost, shown, len(present))
    if best is None:
        return None
    return best[1], best[2], best[3]


def judge_image(got, attempts, need):
    """attempts: [(status, writes)] in commit order.  The recovered state must be the state after the
    first n acknowledged commits, n >= need, and NOTHING else.  Returns (verdict, shown, n_present, lost):
    verdict in ok | revived | acked-lost | revived+acked-lost | unexplained; shown = [(attempt, k, n)]"""
    acked = [w for s, w in attempts if s == "ok"]
    for n in range(len(acked), need - 1, -1):
        if K.state_after(acked, n) == got:
            return "ok", [], n, []
    e = explain(got, attempts, need)
    if e is None:
        return "unexplained", [], 0, []
    lost, shown, npres = e
    v = []
    if shown:
        v.append("revived")
    if lost:
        v.append("acked-lost")
    return "+".join(v) or "ok", shown, npres, lost


def evaluate(wl, out, log, status, fault):
    """returns dict(attempts, findings=[(class_or_None, description)], stats)"""
    F = []          # (class, text): class None = plain violation
    script = wl.script
    n_expected = len(script) - (1 if wl.ending == "abort" else 0)
    info = dict(acked=0, failed=0, conflicts=0, refused=0, sticky=False, fault_fired=any(l.startswith("F ") for l in log))
    if status == "timeout":
        F.append((None, "hang: the harness did not finish within the time limit; it answered %d of %d commands, stuck in `%s`" % (
            len(out), n_expected, script[len(out)] if len(out) < len(script) else "-")))
        info["timeout"] = True
        return dict(attempts=[], findings=F, info=info, causes={})
    if status == "damaged-log":
        info["discarded"] = True
        return dict(attempts=[], findings=[], info=info)
    if len(out) > 1 and out[1] != "ok":
        # the fault hit the open itself: there is no store to talk to; only the crash images are judged
        info["open_failed"] = True
        return dict(attempts=[], findings=F, info=info, causes={})
    if len(out) < n_expected:
        F.append((None, "the store process died: %d answers for %d commands (last: %s)" % (len(out), n_expected, out[-1] if out else "-")))
    ans = lambda i: out[i] if i < len(out) else None
    reg = regions(log)
    attempts = []
    acked_so_far = []
    committed_at = []      # (commit_line, keys) of acknowledged transactions
    fail_lines = []
    causes = {}
    for kind, line, obj in wl.steps:
        a = ans(line)
        if kind == "commit":
            t = obj
            st = status_of(a)
            flt = fault_lines(log, reg.get(line, (0, 0)))
            if st == "panic":
                F.append((None, "panic inside commit of T%d: %s" % (t.tid, a[:200])))
            # expected conflict (first committer wins among overlapping transactions)
            exp_conf = any(t.begin_line < cl < line and (ks & t.keys()) for cl, ks in committed_at)
            if st == "conflict" and not exp_conf:
                F.append((None, "spurious conflict: T%d fails with Conflict although no acknowledged commit since its start wrote its keys" % t.tid))
            if st == "ok" and exp_conf:
                F.append((None, "T%d committed although an overlapping transaction committed the same key first" % t.tid))
            if st == "ok":
                acked_so_far.append(t.writes)
                committed_at.append((line, t.keys()))
                info["acked"] += 1
            elif st == "conflict":
                info["conflicts"] += 1
            elif st == "refused":
                info["refused"] += 1
            elif st == "fail":
                info["failed"] += 1
                fail_lines.append((line, bool(flt), a))
            cause = "apply" if (a or "").startswith("err:Other(Commit_fail") or "Commit_fail" in (a or "") else \
                    ("fsync" if any("fsync" in x for x in flt) else ("write" if flt else "none"))
            causes[len(attempts)] = (cause, a, flt)
            attempts.append((st, t.writes))
            pl = t.probe_line
        else:
            cmd, pl = obj
            if (a or "").startswith("PANIC"):
                F.append((None, "panic inside `%s`: %s" % (cmd, a[:200])))
        # live probe
        got = ans(pl)
        want = state_of(acked_so_far)
        if got is not None and got != want:
            # is it failed commits (fully or partly) that show?
            e = explain(got, attempts, sum(1 for s_, w_ in attempts if s_ == "ok")) if got.startswith("list:") else None
            if e is not None and not e[0] and e[1]:
                shown = e[1]
                cl_ = set()
                for (i, k, n) in shown:
                    cause = causes[i][0]
                    cl_.add("failed_partial_apply_visible" if cause == "apply" else None)
                cls = cl_.pop() if len(cl_) == 1 else None
                F.append((cls, "LIVE: after line %d (%s) a fresh reader sees %s: %s" % (
                    line, script[line][3:], ", ".join("%d of the %d writes of the FAILED commit #%d (%s)" % (k, n, i + 1, (causes[i][1] or "")[:60]) for i, k, n in shown), got[:200])))
            else:
                cls = vlog_class(got, fault, [want])
                F.append((cls, "LIVE: after line %d (%s) a fresh reader sees %s, the acknowledged commits give %s" % (line, script[line][3:], got[:200], want[:200])))
    # (c') since the repair of C15-N1/N2/N10 a WAL failure is sticky (Wal.failed): after a commit or a physical command that
    # failed with a WAL error NO later commit may be acknowledged (theorem C15_no_ack_after_failure)
    wal_failed = None
    for kind, line, obj in wl.steps:
        a = ans(line) or ""
        if wal_failed is not None and kind == "commit" and a == "ok":
            F.append((None, "commit at line %d is acknowledged after `%s` (line %d) failed with a WAL error (%s): the Wal must refuse every write after a failure" % (
                line, script[wal_failed][3:], wal_failed, (ans(wal_failed) or "")[:80])))
            break
        if wal_failed is None and a.startswith("err") and "WAL" in a:
            wal_failed = line
    info["wal_failed"] = wal_failed is not None
    # (c) a failure that no fresh fault explains must be sticky: every later commit fails as well
    for line, has_fault, a in fail_lines:
        if has_fault:
            continue
        later = [status_of(ans(l)) for k, l, o in wl.steps if k == "commit" and l > line]
        if any(s == "ok" for s in later):
            F.append((None, "commit at line %d fails (%s) without any injected fault during it, and a later commit succeeds: neither recovered nor sticky" % (line, (a or "")[:100])))
        else:
            info["sticky"] = True
    return dict(attempts=attempts, findings=F, info=info, causes=causes)


def unsynced_rotated_vlog(log):
    """value-log files that were written after their last fsync and are not the newest one"""
    fd, last_w, last_s, order = {}, {}, {}, []
    for i, l in enumerate(log):
        t = l[:1]
        if t == "O":
            p = l.split(" ", 3)
            fd[int(p[1])] = p[3]
            if "/vlog/" in p[3] and p[3] not in order:
                order.append(p[3])
        elif t == "P":
            _, a, b = l.split()
            if int(a) in fd:
                fd[int(b)] = fd[int(a)]
        elif t == "C":
            fd.pop(int(l.split()[1]), None)
        elif t == "W":
            q = fd.get(int(l.split(" ", 2)[1]), "")
            if "/vlog/" in q:
                last_w[q] = i
        elif t == "S":
            q = fd.get(int(l.split()[1]), "")
            if "/vlog/" in q:
                last_s[q] = i
    return [q for q in order[:-1] if q in last_w and last_w[q] > last_s.get(q, -1)]


def vlog_class(answer_text, fault, expected=None):
    """classes of the value-log findings: only for a write-kind fault on vlog/"""
    if not fault or fault[1] != "vlog/" or fault[0][1] == "fsync":
        return None
    t = answer_text or ""
    if "Failed_to_resolve_value_from_VLog" in t:
        return "vlog_write_error_swallowed"
    if t.startswith("list:") and expected:
        # same keys as an expected state, only out-of-line values differ (zeros / bytes of a neighbour entry)
        def as_map(line):
            return dict(x.split("=") for x in line[5:].split(",") if x)
        g = as_map(t)
        for e in expected:
            m = as_map(e)
            if set(m) == set(g) and g != m:
                return "vlog_write_error_swallowed"
    if "VLog" in t or "File_ID_mismatch" in t or "vlog" in t:
        return "torn_vlog_file_blocks_reopen"
    return None


def classify_image(verdict, shown, lost, attempts, causes):
    """classes of a bad crash image, None = unknown (violation)"""
    classes = []
    if "revived" in verdict:
        for (i, k, n) in shown:
            cause = causes[i][0]
            st = attempts[i][0]
            if st == "fail" and cause == "apply":
                classes.append("wal_durable_apply_failed_replayed" if k == n else "failed_partial_apply_visible")
            elif k < n:
                classes.append(None)
            elif st == "fail" and cause == "write":
                classes.append("failed_record_bytes_flushed_later")
            elif st == "fail" and cause == "fsync":
                classes.append("wal_synced_failed_commit_replayed")
            else:
                classes.append(None)
    if "acked-lost" in verdict:
        # every lost acknowledged commit comes after a commit that failed with a WAL write error
        acked_idx = [i for i, (s, w) in enumerate(attempts) if s == "ok"]
        first_fail = next((i for i in sorted(causes) if attempts[i][0] == "fail" and causes[i][0] == "write"), None)
        if first_fail is not None and all(acked_idx[o] > first_fail for o in lost):
            classes.append("acks_after_failed_wal_write_lost")
        else:
            classes.append(None)
    if verdict in ("unexplained", "open-failed"):
        classes.append(None)
    return classes


# ===================================================================== sweep
KINDS_W = ["eio", "enospc", "short1", "short7", "shorthalf", "shorterr1", "shorterr7", "shorterrhalf"]


def fault_plans(ops, substr, tier, rng, budget):
    """all (n, kind, sticky) over the data operations of the fault-free run"""
    plans = []
    nw = ns = 0
    for op in ops:
        if op[0] == "w":
            nw += 1
            for kind in KINDS_W:
                k = kind.replace("half", str(max(1, op[1] // 2)))
                for sticky in (False, True):
                    plans.append((nw, k, sticky))
        else:
            ns += 1
            for sticky in (False, True):
                plans.append((ns, "fsync", sticky))
    if budget and len(plans) > budget:
        # keep every position with the two most telling kinds, sample the rest
        core = [p for p in plans if p[1] in ("eio", "fsync") and not p[2]]
        rest = [p for p in plans if p not in set(core)]
        core = core if len(core) <= budget else rng.sample(core, budget)
        plans = core + rng.sample(rest, max(0, min(len(rest), budget - len(core))))
    return plans


def spec_of(plan, substr):
    n, kind, sticky = plan
    return "%d:%s:%s%s" % (n, kind, substr, ":sticky" if sticky else "")


def baseline(wl, name, substr):
    """fault-free run: (ok, why, out, log, ops, skip_pol)"""
    wd0 = os.path.join(WORK, name, "base")
    script = wl.compile(os.path.join(wd0, "root"))
    out, log, st = run_traced(script, wd0)
    if st != "done":
        return False, "fault-free run: " + st, out, log, [], set()
    ev0 = evaluate(wl, out, log, st, None)
    if ev0["findings"]:
        return False, "fault-free run: " + ev0["findings"][0][1], out, log, [], set()
    # power-loss images of the FAULT-FREE run that are already bad belong to C02/C03, not to this property:
    # those policies are not judged in the faulty runs of this workload
    base_imgs = final_images(log, os.path.join(wd0, "root", "db"), os.path.join(wd0, "img"))
    base_ans = K.scan_images([d for d, _ in base_imgs], wl.opts) if base_imgs else []
    n_acks0, n_dur0 = acks_info(log)
    skip_pol = set()
    for (d, pol), a in zip(base_imgs, base_ans):
        okimg = a is not None and len(a) >= 4 and a[1] == "ok" and a[3].startswith("list:") and \
            judge_image(a[3], ev0["attempts"], n_acks0 if pol == "proc" else n_dur0)[0] == "ok"
        if not okimg:
            if pol == "proc":
                return False, "fault-free run: the process-crash image at the end of the run does not recover the acknowledged commits: %s" % str(a)[:300], out, log, [], set()
            skip_pol.add(pol)
    shutil.rmtree(wd0, ignore_errors=True)
    return True, "", out, log, data_ops(log, substr), skip_pol


def run_plans(wl, name, substr, plans, skip_pol, stats=None):
    """one traced run per plan, crash images scanned in one batch.
    Returns [(plan, workload, out, log, findings[(class|None, text)], info)]"""
    def one(job):
        j, plan = job
        wd = os.path.join(WORK, name, "f%d" % j)
        w2 = Workload(wl.items, wl.opts, wl.ending, wl.profile)
        sc = w2.compile(os.path.join(wd, "root"))
        out, log, st = run_traced(sc, wd, fail=spec_of(plan, substr))
        if st == "timeout":
            # a hang must reproduce to be reported (two more attempts); otherwise it is counted and the rerun is judged
            again = [run_traced(sc, wd, fail=spec_of(plan, substr)) for _ in range(2)]
            if all(a[2] == "timeout" for a in again):
                pass
            else:
                if stats is not None:
                    stats["timeouts_not_reproduced"] = stats.get("timeouts_not_reproduced", 0) + 1
                    stats.setdefault("timeouts_not_reproduced_at", []).append("%s on %s; threads: %s" % (spec_of(plan, substr), w2.show()[:200], HANG_INFO.get(wd, [])[:12]))
                out, log, st = [a for a in again if a[2] != "timeout"][0]
        ev = evaluate(w2, out, log, st, (plan, substr))
        if st == "timeout":
            ev["findings"] = [(c_, t_ + " (3 of 3 attempts); threads: %s" % HANG_INFO.get(wd, [])[:12]) for c_, t_ in ev["findings"]]
        imgs = final_images(log, os.path.join(wd, "root", "db"), os.path.join(wd, "img"),
                            policies=[p for p in ("proc", "none", "half", "allbutone") if p not in skip_pol]) if st == "done" and log else []
        return (plan, w2, out, log, ev, imgs, wd)

    with ThreadPoolExecutor(max_workers=C.NCPU) as ex:
        runs = list(ex.map(one, list(enumerate(plans))))
    all_imgs = [(ri, d, pol) for ri, r in enumerate(runs) for (d, pol) in r[5]]
    answers = K.scan_images([d for _, d, _ in all_imgs], wl.opts) if all_imgs else []
    per_run = {}
    for (ri, d, pol), a in zip(all_imgs, answers):
        per_run.setdefault(ri, []).append((pol, a))
    result = []
    for ri, (plan, w2, out, log, ev, imgs, wd) in enumerate(runs):
        info = ev["info"]
        if info.get("discarded"):
            if stats is not None:
                stats["discarded_runs"] = stats.get("discarded_runs", 0) + 1
            shutil.rmtree(wd, ignore_errors=True)
            continue
        findings = list(ev["findings"])
        n_acks, n_dur = acks_info(log)
        for pol, a in per_run.get(ri, []):
            need = n_acks if pol == "proc" else n_dur
            if a is None or len(a) < 4 or a[1] != "ok" or not a[3].startswith("list:"):
                verdict, revived, npres, lost = "open-failed", [], 0, []
                detail = str(a)[:200]
            else:
                verdict, revived, npres, lost = judge_image(a[3], ev["attempts"], need)
                detail = a[3][:300]
            if stats is not None:
                stats["images"] += 1
                stats["verdicts"][verdict] = stats["verdicts"].get(verdict, 0) + 1
                stats["policies"][pol] = stats["policies"].get(pol, 0) + 1
            if verdict == "ok":
                continue
            if verdict == "open-failed":
                at = " ".join(str(x) for x in (a or []))
                if pol != "proc" and "Failed_to_resolve_value_from_VLog" in at and unsynced_rotated_vlog(log):
                    cl = ["vlog_rotation_without_fsync"]
                elif substr == "wal/" and "WAL" in at and "orrupt" in at and \
                        any(st_ == "fail" and ev.get("causes", {}).get(i_, ("",))[0] == "write" for i_, (st_, w_) in enumerate(ev["attempts"])):
                    cl = ["reopen_fails_after_failed_wal_write"]
                else:
                    cl = [vlog_class(at, (plan, substr))]
            elif verdict == "unexplained" and substr == "vlog/":
                ak = [w for s_, w in ev["attempts"] if s_ == "ok"]
                exp_states = [K.state_after(ak, n) for n in range(need, len(ak) + 1)]
                if pol != "proc" and unsynced_rotated_vlog(log) and vlog_class(a[3], ((0, "eio", False), "vlog/"), exp_states) == "vlog_write_error_swallowed":
                    cl = ["vlog_rotation_without_fsync"]      # same keys, wrong out-of-line values, an older value-log file never fsynced
                else:
                    cl = [vlog_class(a[3], (plan, substr), exp_states)]
            else:
                cl = classify_image(verdict, revived, lost, ev["attempts"], ev.get("causes", {}))
            for cls in cl:
                findings.append((cls, "CRASH(%s): %s; failed commits present (commit#, writes shown, of) %s; acknowledged commits missing %s (%d required); recovered %s" % (
                    pol, verdict, [(i + 1, k, n) for i, k, n in revived], [o + 1 for o in lost], need, detail)))
        result.append((plan, w2, out, log, findings, ev))
        shutil.rmtree(wd, ignore_errors=True)
    shutil.rmtree(os.path.join(WORK, name), ignore_errors=True)
    return result


def category(cls, text):
    """what a shrunk input has to reproduce"""
    return cls or re.sub(r"[^A-Za-z(): -].*", "", text)[:40]


def sweep(wl, name, substr, tier, rng, budget, stats, res, kf, examples):
    """base run + every fault plan (sampled down to `budget` when given); returns the number of runs"""
    ok, why, out, log, ops, skip_pol = baseline(wl, name, substr)
    if not ok:
        res["violations"].append((why, replay_text(wl, None, substr, why, out, log)))
        return 0
    stats["base_ops"][substr] = stats["base_ops"].get(substr, 0) + len(ops)
    stats["baseline_bad_policies"] += len(skip_pol)
    if skip_pol:     # nothing is expected here since the value-log rotation is fsynced (C15-N8 fixed): say where
        stats.setdefault("baseline_bad_at", []).append("%s: %s" % (sorted(skip_pol), wl.show()[:300]))
    plans = fault_plans(ops, substr, tier, rng, budget)
    runs = run_plans(wl, name, substr, plans, skip_pol, stats)
    for plan, w2, out, log, findings, ev in runs:
        info = ev["info"]
        stats["runs"] += 1
        key = "%s%s%s" % (substr, re.sub(r"\d+", "", plan[1]), "/sticky" if plan[2] else "")
        stats["plans"][key] = stats["plans"].get(key, 0) + 1
        stats["fired"] += 1 if info["fault_fired"] else 0
        stats["open_failed_runs"] += 1 if info.get("open_failed") else 0
        stats["sticky_runs"] += 1 if info["sticky"] else 0
        stats["wal_failed_runs"] = stats.get("wal_failed_runs", 0) + (1 if info.get("wal_failed") else 0)
        stats["commits"]["ok"] += info["acked"]
        stats["commits"]["failed"] += info["failed"]
        stats["commits"]["conflict"] += info["conflicts"]
        stats["commits"]["refused"] += info["refused"]
        at = ev["attempts"]
        fails = [i for i, (s_, w) in enumerate(at) if s_ == "fail"]
        if fails and any(s_ == "ok" for s_, w in at[fails[0]:]):
            stats["nontrivial"].add((name, plan))      # a failed commit followed by an acknowledged one
        for cls, text in findings:
            if cls is not None and cls in kf:
                res["known"].append("class=%s (%s)" % (cls, kf[cls]))
                stats["known"][cls] = stats["known"].get(cls, 0) + 1
                examples.setdefault(cls, []).append((w2, plan, substr, text, out, log))
            else:
                label = ("unlisted class %s: " % cls if cls else "") + text
                examples.setdefault("VIOLATION:" + category(cls, text), []).append((w2, plan, substr, label, out, log))
    return len(runs)


def shrink(wl, plan, substr, target, name, rounds=40):
    """delta-debugging over the workload items / writes, keeping the fault kind; the fault index is re-swept on every
    candidate.  target = category() of the finding to keep.  Returns (workload, plan, text, out, log) of the smallest hit."""
    kind = re.sub(r"\d+", "", plan[1])
    sticky = plan[2]

    def hit(w):
        ok, why, out, log, ops, skip_pol = baseline(w, name, substr)
        if not ok:
            return None
        plans = [p for p in fault_plans(ops, substr, "thorough", None, 0) if re.sub(r"\d+", "", p[1]) == kind and p[2] == sticky]
        best = None
        for pl, w2, o, lg, findings, ev in run_plans(w, name, substr, plans, skip_pol):
            for cls, text in findings:
                if category(cls, text) == target:
                    if best is None or pl[0] < best[1][0]:
                        best = (w2, pl, text, o, lg)
        return best

    cur = hit(wl)
    if cur is None:
        return None
    items = list(wl.items)
    for _ in range(rounds):
        progress = False
        cands = []
        for i in range(len(items)):
            cands.append(items[:i] + items[i + 1:])
        for i, it in enumerate(items):
            if it[0] == "pair":
                cands.append(items[:i] + [("txn", it[1])] + items[i + 1:])
                cands.append(items[:i] + [("txn", it[2])] + items[i + 1:])
            if it[0] == "txn" and len(it[1].writes) > 1:
                for k in range(len(it[1].writes)):
                    t = Txn(it[1].tid, it[1].writes[:k] + it[1].writes[k + 1:], it[1].sync)
                    cands.append(items[:i] + [("txn", t)] + items[i + 1:])
            if it[0] == "txn" and it[1].sync:
                cands.append(items[:i] + [("txn", Txn(it[1].tid, it[1].writes, False))] + items[i + 1:])
        for c in cands:
            if not any(x[0] in ("txn", "pair") for x in c):
                continue
            w = Workload(c, wl.opts, wl.ending, wl.profile)
            h = hit(w)
            if h is not None:
                items, cur, progress = c, h, True
                break
        if not progress:
            break
    return cur


def replay_text(wl, plan, substr, desc, out, log):
    t = ["# property=C15", "# oracle: " + desc[:600], "# workload: " + wl.show(),
         "# fault: VERIF_SHIM_FAIL=%s   (run the script below in the harness under shim/libverifshim.so, see tools/vlib/crash.py:trace)" % (spec_of(plan, substr) if plan else "none")]
    t += ["> " + l for l in wl.script]
    t += ["# answers:"] + ["#   %s -> %s" % (l[3:], out[i] if i < len(out) else "<none>") for i, l in enumerate(wl.script) if l.split()[1] in ("commit", "commitsync", "scan", "flush", "rotate", "compact", "flushwal", "close")]
    t += ["# operation log (wal, faults, markers):"] + ["#   " + l[:140] for l in log if l[:1] in "WSFM"][-60:]
    return "\n".join(t) + "\n"


# ===================================================================== store-level exploration
def new_stats():
    return dict(base_ops={}, runs=0, plans={}, fired=0, open_failed_runs=0, sticky_runs=0, images=0, verdicts={}, policies={}, known={},
                nontrivial=set(), baseline_bad_policies=0, commits=dict(ok=0, failed=0, conflict=0, refused=0), workloads=0)


def store_plan(tier):
    """(profile, path class, number of workloads, plan budget per workload (0 = all))"""
    if tier == "quick":
        return [("small", "wal/", 4, 0), ("big", "wal/", 1, 48), ("arena", "wal/", 2, 0),
                ("lsm", "sstables/", 1, 96), ("lsm", "manifest/", 1, 0), ("vlog", "vlog/", 2, 0)]
    return [("small", "wal/", 30, 0), ("big", "wal/", 8, 0), ("arena", "wal/", 12, 0),
            ("lsm", "sstables/", 8, 0), ("lsm", "manifest/", 10, 0), ("vlog", "vlog/", 12, 0), ("vlog", "sstables/", 3, 0)]


def explore_store(ctx, res, kf):
    rng = C.Rng(ctx["seed"] * 9176 + 15)
    tier = ctx["tier"]
    stats = new_stats()
    examples = {}
    samples = []
    wi = 0
    for profile, substr, n, budget in store_plan(tier):
        for _ in range(n):
            wi += 1
            items = gen_items(rng, profile)
            ending = "close" if rng.random() < 0.2 else "abort"
            wl = Workload(items, rng.choice(PROFILE_OPTS[profile]), ending, profile)
            stats["workloads"] += 1
            if len(samples) < 4 or (profile in ("big", "arena", "vlog") and not any(profile in s_ for s_ in samples)):
                samples.append("%s on %s: %s" % (profile, substr, wl.show()[:300]))
            sweep(wl, "w%d" % wi, substr, tier, rng, budget, stats, res, kf, examples)
    # violations: shrink the first example of each category
    for key in sorted(k for k in examples if k.startswith("VIOLATION:")):
        w2, plan, substr, label, out, log = examples[key][0]
        small = None
        try:
            small = shrink(w2, plan, substr, key[len("VIOLATION:"):], "shrink", rounds=12 if tier == "quick" else 40)
        except Exception as e:      # the shrinker must never hide the finding
            label += "  [shrinker failed: %r]" % (e,)
        if small:
            w3, pl3, text3, out3, log3 = small
            res["violations"].append((label, replay_text(w3, pl3, substr, label + "  [shrunk; first seen with fault %s on: %s]" % (spec_of(plan, substr), w2.show()[:400]), out3, log3)))
        else:
            res["violations"].append((label, replay_text(w2, plan, substr, label, out, log)))
    stats["examples"] = {k: "%s  under VERIF_SHIM_FAIL=%s on %s" % (v[0][3][:260], spec_of(v[0][1], v[0][2]), v[0][0].show()[:300])
                         for k, v in examples.items() if not k.startswith("VIOLATION:")}
    stats["samples"] = samples
    return stats


# ===================================================================== writer level (W): Wal manager vs Crash/Fail.v
def tok_bytes(tok):
    if tok.startswith("rep:"):
        _, l, sd = tok.split(":")
        return C.rep(int(l), int(sd))
    return b"" if tok == "-" else bytes.fromhex(tok)


def gen_wf_script(rng, B, shape):
    """command lists over append <payload> / flush / sync / rotate"""
    cmds = []
    sd = [0]

    def app(n):
        sd[0] += 1
        return "append rep:%d:%d" % (n, sd[0] & 255) if n else "append -"

    small = lambda: rng.choice([1, 2, 5, 9, 40, 100, 300, rng.randint(1, 2000)])
    if shape == "small":
        for _ in range(rng.randint(3, 7)):
            r = rng.random()
            cmds.append(app(small()) if r < 0.7 else rng.choice(["flush", "sync", "sync", "rotate", app(0)]))
        cmds.append(app(small()))
        if rng.random() < 0.5:
            # close somewhere (commands after it: append is refused, flush/sync do nothing, rotate is not guarded), or at the end
            cmds.insert(rng.randint(1, len(cmds)), "close")
            if rng.random() < 0.5:
                cmds += [rng.choice(["sync", "flush", "close", "rotate"]), app(small())]
    elif shape == "edge":
        # a record that fills the buffer exactly / by one byte more or less, with something small around it
        pre = rng.choice([0, 1, 3])
        for _ in range(pre):
            cmds.append(app(small()))
        cmds.append(app(B - 7 - rng.choice([0, 1, 2, 7, 8]) - (0 if pre == 0 else rng.choice([0, 50, 400]))))
        cmds.append(rng.choice(["sync", "flush", app(3)]))
        cmds.append(app(small()))
        cmds.append(app(small()))
    elif shape == "multi":
        # records of two or three fragments: header and data of a fragment flushed apart
        cmds.append(app(small()))
        cmds.append(app(rng.choice([B - 6, B, B + 100, 40000, 2 * B - 20, 2 * B + 5, 70000])))
        cmds.append(rng.choice(["sync", app(small())]))
        cmds.append(app(small()))
        if rng.random() < 0.5:
            cmds.append("rotate")
            cmds.append(app(small()))
        cmds.append(rng.choice(["close", "sync", "flush"]))
    elif shape == "pile":
        # many mid-size records under a sticky fault pile up in the buffer until it overflows
        for _ in range(rng.randint(5, 8)):
            cmds.append(app(rng.choice([6000, 9000, 12000])))
        cmds.append("close")
    return cmds


def wf_lines(cmds, plan, root):
    n, kind, sticky = plan
    return ["wf open %s/wal" % root, "wf fault %d %s %d" % (n, kind, 1 if sticky else 0)] + ["wf " + c for c in cmds] + \
           ["wf files", "wf read", "wf class", "wf end"]


def wf_run(cmds, plan, wd, sides):
    """one case: the harness under the shim with the plan in its environment, the driver with the plan in the script"""
    shutil.rmtree(wd, ignore_errors=True)
    root = os.path.join(wd, "root")
    os.makedirs(root)
    lines = wf_lines(cmds, plan, root)
    text = "\n".join(lines) + "\n"
    n, kind, sticky = plan
    log = os.path.join(wd, "oplog.txt")
    env = dict(VERIF_SHIM_ROOT=root, VERIF_SHIM_LOG=log, LD_PRELOAD=K.SHIM)
    if n:
        env["VERIF_SHIM_FAIL"] = "%d:%s:wal/%s" % (n, kind, ":sticky" if sticky else "")
    impl = C.run_side(C.HARNESS_BIN, text, 300, env)[0]
    model = C.run_side(C.DRIVER_BIN, text, 300)[0] if "model" in sides else None
    nw = ns = 0
    if os.path.exists(log):
        for l in open(log, errors="replace"):
            if l.startswith("W "):
                nw += 1
            elif l.startswith("S ") and False:
                ns += 1
    ops = data_ops(open(log, errors="replace").read().splitlines(), "wal/") if os.path.exists(log) else []
    shutil.rmtree(wd, ignore_errors=True)
    return lines, impl, model, ops


def wf_judge(cmds, lines, impl, model):
    """oracle on the implementation's answers; classes from the model's `class` line.
    Returns (verdict, class or None, text, disagreement or None)"""
    dis = None
    if model is not None:
        for i, l in enumerate(lines):
            if l == "wf class":
                continue
            a = impl[i] if i < len(impl) else "<none>"
            b = model[i] if i < len(model) else "<none>"
            if a != b:
                dis = "line %d `%s`: implementation %s, model %s" % (i, l[:60], a[:200], b[:200])
                break
    if len(impl) < len(lines):
        return "died", None, "the harness died after %d of %d commands" % (len(impl), len(lines)), dis
    acked = []
    for i, c in enumerate(cmds):
        a = impl[2 + i]
        if a.startswith("PANIC"):
            return "panic", None, "panic in `%s`: %s" % (c, a[:200]), dis
        if c.startswith("append ") and a == "ok":
            b = tok_bytes(c.split()[1])
            acked.append("%d/%s" % (len(b), C.fnv(b)))
    rd = impl[2 + len(cmds) + 1]
    delivered = []
    for seg in rd.split(" | "):
        m = re.match(r"n=\d+ \[(.*?)\] (\S+)", seg)
        if not m:
            return "unreadable", None, "segment cannot be read: %s" % seg[:200], dis
        delivered += [x.split("@")[0] for x in m.group(1).split(",") if x]
    if delivered == acked:
        return "ok", None, "", dis
    cl = {}
    if model is not None and len(model) >= len(lines):
        for kv in model[2 + len(cmds) + 2].split()[1:]:
            if "=" in kv:
                k, v = kv.split("=", 1)
                cl[k] = v
    # since the repair of C15-N1/N2/N10 there is no known class at this level: theorem C15_crash_delivers_exactly_acked
    it = iter(delivered)
    all_acked_there = all(any(x == y for y in it) for x in acked)
    text = "delivered after the crash [%s] ; acknowledged appends [%s] ; model says %s" % (",".join(delivered)[:300], ",".join(acked)[:300], cl)
    return ("revived" if all_acked_there else "acked-lost"), None, text, dis


def wf_sticky(cmds, impl):
    """after a command that returned an error no append may be acknowledged (the Wal has failed or is closed)"""
    seen = None
    for i, c in enumerate(cmds):
        a = impl[2 + i] if 2 + i < len(impl) else None
        if seen is not None and c.startswith("append ") and a == "ok":
            return "append `%s` (command %d) is acknowledged after `%s` (command %d) returned an error" % (c[:40], i, cmds[seen][:40], seen)
        if a == "err" and seen is None:
            seen = i
    return None


def explore_writer(ctx, res, kf):
    rng = C.Rng(ctx["seed"] * 5081 + 150)
    tier = ctx["tier"]
    sides = ("impl", "model") if ctx["have_model"] else ("impl",)
    rc, outp = C.run("printf 'wal params\\n' | " + C.HARNESS_BIN)
    B = int(re.search(r"BLOCK_SIZE=(\d+)", outp).group(1))
    if ctx["have_model"]:
        rc, outp = C.run("printf 'wf params\\n' | " + C.DRIVER_BIN)
        m = re.search(r"cap=(\d+) ok=(\w+)", outp)
        if not m or m.group(2) != "true" or int(m.group(1)) != B:
            res["disagreements"].append("writer model parameters: driver says `%s`, crate BLOCK_SIZE=%d" % (outp.strip()[-100:], B))
    shapes = [("small", 6, 0), ("edge", 3, 40), ("multi", 3, 40), ("pile", 1, 24)] if tier == "quick" else \
             [("small", 60, 0), ("edge", 30, 0), ("multi", 30, 0), ("pile", 6, 0)]
    stats = dict(scripts=0, cases=0, compared=0, verdicts={}, known={}, kinds={}, nontrivial=set(), samples=[])
    base = os.path.join(WORK, "wf")
    shutil.rmtree(base, ignore_errors=True)
    jobs = []
    si = 0
    for shape, n, budget in shapes:
        for _ in range(n):
            si += 1
            cmds = gen_wf_script(rng, B, shape)
            stats["scripts"] += 1
            if len(stats["samples"]) < 6:
                stats["samples"].append("wf %s: %s" % (shape, " ; ".join(cmds)[:200]))
            # fault-free run counts the write / fsync calls
            lines, impl, model, ops = wf_run(cmds, (0, "eio", False), os.path.join(base, "s%d_base" % si), sides)
            v, cls, text, dis = wf_judge(cmds, lines, impl, model)
            stats["cases"] += 1
            if dis:
                res["disagreements"].append("fault-free `%s`: %s" % (" ; ".join(cmds)[:200], dis))
            if v != "ok":
                res["violations"].append(("writer level, fault-free: " + text, "# property=C15\n# writer level, no fault\n" + "".join("> %s\n" % l for l in lines)))
                continue
            plans = fault_plans(ops, "wal/", tier, rng, 0)
            if shape != "small":
                # a persistent short write of a few bytes turns one big record into tens of thousands of calls
                # (quadratic on the model side): keep the persistent short writes of half a call only
                plans = [p for p in plans if not (p[2] and re.fullmatch(r"short\d+", p[1]) and int(p[1][5:]) < 64)]
            if budget and len(plans) > budget:
                plans = rng.sample(plans, budget)
            if shape == "pile":
                plans = [p for p in plans if p[2]]        # the point of this shape is the persistent fault
            for j, plan in enumerate(plans):
                jobs.append((cmds, plan, os.path.join(base, "s%d_f%d" % (si, j))))
    with ThreadPoolExecutor(max_workers=C.NCPU) as ex:
        outs = list(ex.map(lambda j: wf_run(j[0], j[1], j[2], sides), jobs))
    for (cmds, plan, wd), (lines, impl, model, ops) in zip(jobs, outs):
        v, cls, text, dis = wf_judge(cmds, lines, impl, model)
        stats["cases"] += 1
        stats["compared"] += 1 if model is not None else 0
        stats["verdicts"][v] = stats["verdicts"].get(v, 0) + 1
        k = re.sub(r"\d+", "", plan[1]) + ("/sticky" if plan[2] else "")
        stats["kinds"][k] = stats["kinds"].get(k, 0) + 1
        if any(x == "err" for x in impl[2:2 + len(cmds)]):
            stats["nontrivial"].add((tuple(cmds), plan))
        rp = "# property=C15\n# writer level: Wal manager under VERIF_SHIM_FAIL=%s (model: Crash/Fail.v)\n" % spec_of(plan, "wal/") + \
             "".join("> %s\n#   impl: %s\n#   model: %s\n" % (l, impl[i] if i < len(impl) else "<none>", (model[i] if model and i < len(model) else "<none>")[:300]) for i, l in enumerate(lines))
        if dis:
            res["disagreements"].append("fault %s on `%s`: %s" % (spec_of(plan, "wal/"), " ; ".join(cmds)[:160], dis))
            if len(res["disagreements"]) <= 3:
                C.write_replay(PID, "wf_disagreement_%d.txt" % len(res["disagreements"]), rp)
        stk = wf_sticky(cmds, impl)
        if stk:
            res["violations"].append(("writer level (fault %s): %s" % (spec_of(plan, "wal/"), stk), rp))
        if v == "ok":
            continue
        if cls is not None and cls in kf:
            res["known"].append("class=%s (%s)" % (cls, kf[cls]))
            stats["known"][cls] = stats["known"].get(cls, 0) + 1
        else:
            res["violations"].append(("writer level (%s, fault %s): %s%s" % (v, spec_of(plan, "wal/"), "outside every known class of the model: " if cls is None else "unlisted class %s: " % cls, text), rp))
    shutil.rmtree(base, ignore_errors=True)
    return stats


# ===================================================================== witnesses of Props/C15.v on the real code
def confirm_witnesses(ctx, res, kf):
    """the two Coq witnesses (FailInst_proofs.v) replayed on the real writer and, as commits, on the real store"""
    out = {}
    base = os.path.join(WORK, "wit")
    sides = ("impl", "model") if ctx["have_model"] else ("impl",)
    # regressions of the former findings C15-N1 / C15-N2 (the witnesses of the old-writer refutations in Crash/FailInst_proofs.v)
    # on the repaired writer, with a close at the end: the failed append makes the Wal fail, every later append is refused, close
    # writes nothing: a crash (and the closed file) delivers exactly the first record.  w3: the one shape that remains at the level
    # of a sync COMMIT (append + sync): the fsync fails when the record is in the file (C15-N3, store level).
    for name, cmds, plan, want_ans in (
            ("w1_regression", ["append 01", "append 02", "append 03", "close"], (2, "eio", False), ["ok", "err", "err", "ok"]),
            ("w2_regression", ["append 01", "append rep:40000:7", "append 03", "sync", "close"], (2, "eio", False), ["ok", "err", "err", "err", "ok"]),
            ("w3_fsync_failed_sync_commit", ["append 01", "sync", "append 02"], (1, "fsync", False), ["ok", "err", "err"])):
        lines, impl, model, ops = wf_run(cmds, plan, os.path.join(base, name), sides)
        v, cls, text, dis = wf_judge(cmds, lines, impl, model)
        out[name] = "%s answers=%s" % (v, impl[2:2 + len(cmds)])
        if dis:
            res["disagreements"].append("witness %s: %s" % (name, dis))
        rp = "# property=C15\n# writer level regression %s under VERIF_SHIM_FAIL=%s\n" % (name, spec_of(plan, "wal/")) + \
             "".join("> %s\n#   impl: %s\n" % (l, impl[i_] if i_ < len(impl) else "<none>") for i_, l in enumerate(lines))
        if v != "ok" or impl[2:2 + len(cmds)] != want_ans:
            res["violations"].append(("writer level regression %s: verdict %s, answers %s (expected ok, %s): %s" % (
                name, v, impl[2:2 + len(cmds)], want_ans, text[:300]), rp))
    # regression of the former finding C15-N5 (partial apply visible): the workload and the faults of its first witnesses (transactions
    # of a third of the memtable: ArenaFull inside apply; every eio / fsync fault on wal/, transient and sticky).  At least one commit
    # must fail in apply (CommitFail), and no probe may show anything of a failed commit (theorem C15_failed_invisible_live).
    def T(tid, n, size, sync):
        return ("txn", Txn(tid, [("set", "75%02x%02x" % (tid, j), "rep:%d:%d" % (size, (tid * 7 + j) & 255)) for j in range(n)], sync))
    wl5 = Workload([T(1, 4, 500, True), T(2, 3, 700, False), T(3, 3, 500, True), T(4, 2, 700, False)], "lc=2,mem=4096", "abort", "arena")
    ok5, why5, out5, log5, ops5, skip5 = baseline(wl5, "n5reg", "wal/")
    if not ok5:
        res["violations"].append(("partial-apply regression, " + why5, replay_text(wl5, None, "wal/", why5, out5, log5)))
    else:
        plans5 = [p for p in fault_plans(ops5, "wal/", "thorough", None, 0) if p[1] in ("eio", "fsync")]
        n_apply = n_live = 0
        for plan, w2, o5, l5, findings, ev in run_plans(wl5, "n5reg", "wal/", plans5, skip5):
            n_apply += sum(1 for c_ in ev.get("causes", {}).values() if c_[0] == "apply")
            for cls, text in findings:
                if text.startswith("LIVE"):
                    n_live += 1
                    res["violations"].append(("partial-apply regression (former C15-N5): " + text, replay_text(w2, plan, "wal/", text, o5, l5)))
        out["partial_apply_regression"] = "runs=%d commits_failed_in_apply=%d live_findings=%d" % (len(plans5), n_apply, n_live)
        if n_apply == 0:
            res["disagreements"].append("partial-apply regression: no commit failed in apply (CommitFail) in %d faulty runs: the scenario is not exercised any more" % len(plans5))
    # regression of the former finding C15-N9 (Conc/PipeFail_proofs.v wq_trace): one commit held inside apply, n failing commits
    # (BatchTooLarge) and one more commit, each on its own task.  The model (theorem C15_pipeline_not_poisoned, example
    # C15_former_overflow_trace) says: no panic for any n; a failing commit cannot return while an older batch is unapplied
    # (returned_while_blocked = 0); after the slow apply every commit returns its own outcome and the store goes on.
    for n in (7, 9):
        sc = ["e2 new", "e2 open lc=2,mem=4096", "e2 qoverflow %d 6000" % n, "e2 begin 1 rw", "e2 set 1 61 01", "e2 commit 1", "e2 close"]
        for attempt in range(3):     # the scenario relies on 300 ms pauses for the commits to reach their blocking points: retry under load
            a = C.run_pairs([sc], sides=("impl",), timeout=180)[0]["impl"][0]
            line = a[2] if len(a) > 2 else "<none>"
            if "slow_finished_early=false" in line:
                break
        out["queue_regression_n%d" % n] = re.sub(r"(err:Other\(Batch_too_large\),?)+", lambda m: "%dxBatchTooLarge " % m.group(0).count("err:"), line)[-160:]
        rp = "# property=C15\n# regression of C15-N9: one commit held in apply, %d failing commits, one more commit\n" % n + "".join("> %s\n" % l for l in sc) + "# answer: %s\n" % line
        if "PANIC" in line or "STUCK" in line or line == "<none>":
            res["violations"].append(("the commit pipeline %s with %d failed commits behind one commit that is still applying: %s" % (
                "panics" if "PANIC" in line else "does not return", n, line[-300:]), rp))
            continue
        if "slow_finished_early=false" not in line:
            out["queue_regression_n%d" % n] += "  (inconclusive: the slow commit was not held)"
            continue
        m = re.search(r"returned_while_blocked=(\d+) fails=(\S*) last=(\S+) slow=(\S+)", line)
        if not m:
            res["disagreements"].append("pipeline regression: unreadable answer %s" % line[:200])
            continue
        fails = [x for x in m.group(2).split(",") if x]
        if int(m.group(1)) != 0:
            res["disagreements"].append("pipeline regression: %s of %d failing commits returned while an older batch was still being applied; "
                                        "the model Conc/PipeFail.v keeps a failing committer waiting (and its permit held) until its entry is dequeued" % (m.group(1), n))
        if len(fails) != n or any("Batch_too_large" not in x for x in fails) or m.group(3) != "ok" or m.group(4) != "ok":
            res["violations"].append(("pipeline regression: unexpected commit outcomes %s" % line[-300:], rp))
        if len(a) < 6 or a[5] != "ok":
            res["violations"].append(("after %d failed commits behind a slow apply the store no longer accepts a commit: %s" % (n, a[3:]), rp))
    return out


# ===================================================================== entry points
def explore(ctx):
    K.build_shim()
    if os.path.exists(WORK):
        shutil.rmtree(WORK)
    os.makedirs(WORK)
    kf = C.known_findings(PID)
    res = dict(violations=[], known=[], disagreements=[])
    t0 = time.time()
    st = explore_store(ctx, res, kf)
    t1 = time.time()
    ws = explore_writer(ctx, res, kf)
    wit = confirm_witnesses(ctx, res, kf)
    t2 = time.time()
    if not ctx["have_model"]:
        res["disagreements"].append("model side unavailable (extraction/driver did not build)")
    res["violations"] = res["violations"][:5]
    shutil.rmtree(WORK, ignore_errors=True)
    res["coverage"] = {
        "evaluations": st["runs"] + st["images"] + ws["cases"],
        "distinct_nontrivial": len(st["nontrivial"]) + len(ws["nontrivial"]),
        "rule": "(S) store level: sequential E2 workloads (multi-key transactions, deletes, overwrites, sync and non-sync commits, overlapping "
                "transactions, flush_wal, rotate, flush, compaction; records of several WAL blocks; transactions that fill the memtable; "
                "out-of-line values) traced under the LD_PRELOAD recorder with ONE injected fault: the fault index sweeps over EVERY write/fsync "
                "the fault-free run performs on the path class (wal/, sstables/, manifest/, vlog/), kinds eio, enospc, short1, short7, "
                "short<half>, shorterr1/7/<half> (short write then ENOSPC), fsync; transient and sticky (sampled to a budget in quick for the big "
                "sweeps).  Per run: commit answers, a probe scan by a fresh reader after every command (failed commits invisible, acknowledged "
                "ones visible), no hang/panic/death, a failure without a fresh fault must be sticky, and the crash images at the end of the run "
                "(process crash + power loss none/half/all-but-one-byte; policies already bad in the fault-free run are left to C02) reopened and "
                "scanned by the real engine: the recovered state must be built from exactly the acknowledged commits.  non-trivial = a failed "
                "commit followed by an acknowledged one.  (W) writer level: the real Wal manager under the same shim vs the extracted Coq model "
                "Crash/Fail.v, same `wf` scripts (small records, records filling the BufWriter exactly, records of 2-3 fragments, piles under a "
                "persistent fault), every fault position x kind: per-command results, bytes of every segment and the reader's answer must be "
                "identical; oracle delivered == acknowledged, failing cases classified with the model's class predicates",
        "samples": st["samples"] + ws["samples"][:3],
        "programs": st["workloads"] + ws["scripts"], "disagreements_checked": ws["compared"],
        "store_level": {k: (len(v) if isinstance(v, set) else v) for k, v in st.items() if k not in ("samples",)},
        "writer_level": {k: (len(v) if isinstance(v, set) else v) for k, v in ws.items() if k not in ("samples",)},
        "coq_witnesses_on_the_implementation": wit,
        "wall_store_s": round(t1 - t0, 1), "wall_writer_s": round(t2 - t1, 1),
        "exhaustive": False,
    }
    return res


def replay(ctx):
    text = open(ctx["replay"]).read()
    print(text)
    lines = [l[2:] for l in text.splitlines() if l.startswith("> ")]
    m = re.search(r"VERIF_SHIM_FAIL=(\S+)", text)
    if not lines:
        return 1
    K.build_shim()
    wd = os.path.join(WORK, "replay")
    if lines[0].startswith("wf "):
        shutil.rmtree(wd, ignore_errors=True)
        root = os.path.join(wd, "root")
        os.makedirs(root)
        lines[0] = "wf open %s/wal" % root
        env = dict(VERIF_SHIM_ROOT=root, VERIF_SHIM_LOG=os.path.join(wd, "oplog.txt"), LD_PRELOAD=K.SHIM)
        if m and m.group(1) != "none":
            env["VERIF_SHIM_FAIL"] = m.group(1)
        impl = C.run_side(C.HARNESS_BIN, "\n".join(lines) + "\n", 300, env)[0]
        model = C.run_side(C.DRIVER_BIN, "\n".join(lines) + "\n", 300)[0] if ctx["have_model"] else []
        for i, l in enumerate(lines):
            print("> %s\nIMPL:  %s\nMODEL: %s" % (l, impl[i] if i < len(impl) else "<none>", model[i] if i < len(model) else "<none>"))
        return 0
    root = os.path.join(wd, "root")
    lines[0] = "e2 newat %s/db" % root
    out, log, st = run_traced(lines, wd, fail=(m.group(1) if m and m.group(1) != "none" else None))
    for i, l in enumerate(lines):
        print("> %s\nIMPL:  %s" % (l, out[i] if i < len(out) else "<none>"))
    imgs = final_images(log, os.path.join(root, "db"), os.path.join(wd, "img"))
    opts = lines[1].split()[2]
    for (d, pol), a in zip(imgs, K.scan_images([d for d, _ in imgs], opts)):
        print("IMAGE %s: %s" % (pol, a))
    return 0
