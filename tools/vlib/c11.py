"""C11 — separated large values stay intact and reachable (E2 engine with the value log enabled)."""
from . import e2gen as G
from . import crashwl as CW

MODEL_TARGETS = ["theories/Spec/Machine.vo"]
TRUSTED = ["values are compared byte-for-byte through #len/fnv digests; the value log is invisible to the specification machine, "
           "so every dependence on separation, file rotation or clean-up shows as a difference"]
ASSUMPTIONS = ["sequential scripts"]
CRASH_OPTS = ["lc=2,vlog=1,vth=8,vfs=128", "lc=2,vlog=1,vth=8,vfs=256,foc=1", "lc=3,vlog=1,vth=4,vfs=64", "lc=2,vlog=1,vth=8,vfs=128,vck=1"]

OPTS = ["lc=2,vlog=1,vth=8,vfs=64", "lc=3,vlog=1,vth=1,vfs=256", "lc=2,vlog=1,vth=0,vfs=128", "lc=2,vlog=1,vth=64,vfs=4096",
        "lc=1,vlog=1,vth=8,vfs=64", "lc=3,vlog=1,vth=8,vfs=100000,bs=64", "lc=2,vlog=1,vth=8,vfs=64,vck=1"]


def values(rng, n):
    # sizes around every threshold in OPTS, plus multi-block values
    size = rng.choice([0, 1, 2, 7, 8, 9, 63, 64, 65, 200, 5000, 40000] if rng.random() < 0.9 else [100000])
    return "-" if size == 0 else "rep:%d:%d" % (size, n & 255)


W = dict(begin=8, write=40, get=16, scan=6, range=5, cur=14, sp=0, rbsp=0, commit=12, rollback=1, drop=3,
         rotate=3, flush=10, flush1=3, compact=14, compactauto=1, reopen=2)
PROFILES = [
    dict(name="vlog-sizes", opts=OPTS, weights=W, values=values, keys=["61", "62", "6162", "63", "6200"], max_tx=4, length=(60, 150)),
    dict(name="vlog-readers", opts=OPTS, weights=dict(W, begin=14, range=8, cur=24, compact=20, flush=14), values=values,
         keys=["61", "62", "63"], max_tx=5, length=(60, 150)),
]


def nontrivial(lines, exp):
    ops = [l.split()[1] for l in lines]
    return "compact" in ops and any("rep:" in l for l in lines) and ops.count("commit") >= 3


def classify(lines, exp, got):
    return None


def explore(ctx):
    r = G.explore_profiles(ctx, "C11", PROFILES, nontrivial, classify=classify, n_quick=200, n_thorough=3000)
    r["coverage"]["rule"] = ("API histories with the value log enabled: value sizes 0, threshold-1, threshold, threshold+1, multi-block (up to 100 kB), "
                             "vlog file sizes from 64 bytes (rotation inside one flush) upward, overwrite/delete patterns that make files obsolete, "
                             "readers and open cursors held across flush / compaction / clean-up, reopen; non-trivial = a compaction, separated values "
                             "and at least 3 commits")
    # crash recovery with separated values: every crash image (process crash, power loss) must open and return
    # the acknowledged values byte for byte
    c = CW.explore(dict(ctx, seed=ctx["seed"] + 3000), "C11", {"open-failed", "acked-lost", "not-a-prefix"}, n_quick=6, n_thorough=40, opts_pool=CRASH_OPTS)
    r["violations"] += [(d, t) for (d, t, _) in c["violations"]][:3]
    cov, cc = r["coverage"], c["coverage"]
    cov["evaluations"] += cc["evaluations"]
    cov["distinct_nontrivial"] += cc["distinct_nontrivial"]
    cov["crash_images"] = cc.get("images")
    cov["crash_verdicts"] = cc.get("verdicts")
    cov["rule"] += "; plus crash images (recorder + file-system simulator, process crash and three power-loss policies) of workloads with separated values over value-log files of 64-256 bytes"
    return r


replay = G.replay
