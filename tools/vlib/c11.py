"""C11 — separated large values stay intact and reachable (E2 engine with the value log enabled)."""
from . import e2gen as G
from . import common as C
from . import crashwl as CW
import re, struct, zlib

MODEL_TARGETS = ["theories/Spec/Machine.vo", "theories/Lsm/VlogInst.vo"]
PARAM_SECTIONS = ["vlog", "c16"]
TRUSTED = ["values are compared byte-for-byte through #len/fnv digests; the value log is invisible to the specification machine, "
           "so every dependence on separation, file rotation or clean-up shows as a difference"]
ASSUMPTIONS = ["sequential scripts"]
CRASH_OPTS = ["lc=2,vlog=1,vth=8,vfs=128", "lc=2,vlog=1,vth=8,vfs=256,foc=1", "lc=3,vlog=1,vth=4,vfs=64", "lc=2,vlog=1,vth=8,vfs=128,vck=1"]

OPTS = ["lc=2,vlog=1,vth=8,vfs=64", "lc=3,vlog=1,vth=1,vfs=256", "lc=2,vlog=1,vth=0,vfs=128", "lc=2,vlog=1,vth=64,vfs=4096",
        "lc=1,vlog=1,vth=8,vfs=64", "lc=3,vlog=1,vth=8,vfs=100000,bs=64", "lc=2,vlog=1,vth=8,vfs=64,vck=1"]


def values(rng, n):
    # sizes around every threshold in OPTS, plus multi-block values
    size = rng.choice([0, 1, 2, 7, 8, 9, 63, 64, 65, 200, 5000, 40000] if rng.random() < 0.9 else [100000])
    return "-" if size == 0 else "rep:%d:%d" % (size, n & 255)


W = dict(begin=8, write=40, get=16, scan=6, range=5, cur=14, sp=0, rbsp=0, commit=12, rollback=1, drop=3,
         rotate=3, flush=10, flush1=3, compact=14, compactauto=1, reopen=2)
PROFILES = [
    dict(name="vlog-sizes", opts=OPTS, weights=W, values=values, keys=["61", "62", "6162", "63", "6200"], max_tx=4, length=(60, 150)),
    dict(name="vlog-readers", opts=OPTS, weights=dict(W, begin=14, range=8, cur=24, compact=20, flush=14), values=values,
         keys=["61", "62", "63"], max_tx=5, length=(60, 150)),
]


def nontrivial(lines, exp):
    ops = [l.split()[1] for l in lines]
    return "compact" in ops and any("rep:" in l for l in lines) and ops.count("commit") >= 3


def classify(lines, exp, got):
    return None


def show(v):
    _, l, sd = v.split(":")
    b = C.rep(int(l), int(sd))
    return "#%d/%s" % (len(b), C.fnv(b)) if len(b) > 16 else b.hex()


def volume_index_gc(ctx):
    """a compaction that makes MANY flushed versions obsolete at once (value log + version index): every value-log file
    that is removed must first lose every index entry that points into it.  Implementation-only run with a python
    oracle: every current value is read back byte for byte; the history traversal raises no error, lists only versions
    that were written, and lists the newest version of every key.  Returns [(desc, replay_text)], n_commands."""
    rng = C.Rng(ctx["seed"] * 31 + 11)
    out, total = [], 0
    runs = [rng.choice([900, 1100, 1300])] if ctx["tier"] == "quick" else [700, 900, 1100, 1300, 1700]
    for n in runs:
        opts = "lc=2,ver=1,vlog=1,vth=0,vfs=4096,idx=1,ret=1"
        keys = ["6b%04x" % j for j in range(n)]
        L = ["e2 new", "e2 open " + opts]
        tx = 0
        vals = {}
        for rnd, clk in ((1, 100), (2, 200)):
            L.append("e2 clock %d" % clk)
            for c0 in range(0, n, 100):
                tx += 1
                L.append("e2 begin %d rw" % tx)
                for j in range(c0, min(n, c0 + 100)):
                    v = "rep:%d:%d" % (24 + (j % 7), (j * 3 + rnd) & 255)
                    vals[(keys[j], clk)] = show(v)
                    L.append("e2 set %d %s %s" % (tx, keys[j], v))
                L.append("e2 commit %d" % tx)
                L.append("e2 drop %d" % tx)      # a finished transaction object still holds its snapshot until it is dropped
            L.append("e2 flush")
        L += ["e2 clock 1000000000", "e2 compact 0"]
        tx += 1
        L.append("e2 begin %d ro" % tx)
        probe = [keys[j] for j in sorted(rng.sample(range(n), 40))]
        gi = len(L)
        L += ["e2 get %d %s" % (tx, k) for k in probe]
        hi = len(L)
        L.append("e2 history %d - ff 0 ~ ~ f" % tx)
        L.append("e2 close")
        total += len(L)
        ans = C.run_pairs([L], sides=("impl",), timeout=900)[0]["impl"][0]
        bad = None
        if len(ans) < len(L):
            bad = "the run stopped after %d of %d commands: %s" % (len(ans), len(L), ans[-1:] )
        else:
            for j, k in enumerate(probe):
                if ans[gi + j] != "val:" + vals[(k, 200)]:
                    bad = "`%s` answers %s, expected val:%s" % (L[gi + j], ans[gi + j][:120], vals[(k, 200)])
                    break
            h = ans[hi]
            if bad is None and not h.startswith("hist:"):
                bad = "history over all keys after the compaction fails: %s" % h[:300]
            if bad is None:
                seen_new = set()
                for item in [x for x in h[5:].split(",") if x]:
                    kt, v = item.split("=", 1)
                    k, ts = kt.split("@")
                    if vals.get((k, int(ts))) != v:
                        bad = "history lists %s, which was never written" % item
                        break
                    if int(ts) == 200:
                        seen_new.add(k)
                if bad is None and len(seen_new) != n:
                    bad = "history lists the newest version of %d of %d keys" % (len(seen_new), n)
        if bad:
            desc = "value log + version index, %d keys written twice, compaction: %s" % (n, bad)
            text = ["# property=C11", "# oracle: " + desc, "# options: " + opts, "# (implementation-only run; python oracle)"] + ["> " + l for l in L]
            out.append((desc[:400], "\n".join(text) + "\n"))
    return out, total


# ------------------------------------------------------------------------------------------------------
# (i) codec differential: the crate's ValuePointer / ValueLocation codecs, a value log on its own directory
# (append / get / rotation / clean-up / reopen) and MemTable::flush with value separation, against the
# extracted Codec/VlogPtr.v + Lsm/Vlog.v (`vp` commands); an independent python oracle for the pointer
# codec, the entry framing (zlib.crc32) and the rotation rule.
BOUND = {1: [0, 1, 2, 127, 128, 254, 255], 4: [0, 1, 255, 256, 65535, 65536, 2**31 - 1, 2**31, 2**32 - 2, 2**32 - 1],
         8: [0, 1, 255, 256, 2**32 - 1, 2**32, 2**63 - 1, 2**63, 2**64 - 2, 2**64 - 1]}
PW = [1, 4, 8, 4, 4, 4]


def py_penc(f):
    return struct.pack(">BIQIII", *f).hex()


def rnd_field(rng, w):
    r = rng.random()
    if r < 0.45:
        return rng.choice(BOUND[w])
    if r < 0.7:
        return rng.randrange(0, 256 ** w)
    return rng.randrange(0, 1 << rng.randint(1, 8 * w))


def hx(b):
    return b.hex() if b else "-"


def codec_script(rng, n):
    """list of (command, python-oracle answer or None)"""
    out = [("vp consts", "consts:25,1,1,1,1,31")]
    for _ in range(n):
        r = rng.random()
        if r < 0.22:
            f = [rnd_field(rng, w) for w in PW]
            out.append(("vp penc " + " ".join(map(str, f)), py_penc(f)))
            out.append(("vp pdec " + py_penc(f), "ptr:" + ".".join(map(str, f))))
            out.append(("vp lptr " + " ".join(map(str, f)), "0101" + py_penc(f)))
            out.append(("vp ptrof 0101" + py_penc(f), "ptr:" + ".".join(map(str, f))))
        elif r < 0.40:
            # malformed pointer bytes: wrong lengths, mutated encodings, random bytes
            k = rng.choice([0, 1, 2, 12, 24, 25, 25, 25, 26, 27, 40, 50])
            b = bytes(rng.randrange(256) for _ in range(k))
            exp = ("ptr:" + ".".join(map(str, struct.unpack(">BIQIII", b)))) if k == 25 else "err"
            out.append(("vp pdec " + hx(b), exp))
            # as a stored value: meta byte with / without the pointer bit, version byte, then the bytes
            meta = rng.choice([0, 1, 1, 1, 2, 3, 254, 255])
            sv = bytes([meta, rng.choice([0, 1, 1, 2, 255])]) + b
            isp = meta & 1
            exp2 = ("ptr:" + ".".join(map(str, struct.unpack(">BIQIII", b)))) if (isp and k == 25) else "none"
            out.append(("vp ptrof " + hx(sv), exp2))
            out.append(("vp ldec " + hx(sv), None))
            out.append(("vp ldec " + hx(sv[:rng.choice([0, 1, 2])]), None))
        elif r < 0.52:
            meta, ver = rng.choice([0, 1, 2, 255]), rng.choice([0, 1, 2, 255])
            ln = rng.choice([0, 1, 2, 16, 17, 25, 300])
            out.append(("vp lenc %d %d %s" % (meta, ver, "rep:%d:%d" % (ln, rng.randrange(256)) if ln else "-"), None))
            out.append(("vp linl %s" % ("rep:%d:%d" % (ln, rng.randrange(256)) if ln else "-"), None))
        elif r < 0.70:
            # the inline-or-pointer decision on one raw stored value
            th = rng.choice([0, 1, 2, 8, 64, 300])
            kind = rng.random()
            if kind < 0.6:
                ln = max(0, th + rng.choice([-2, -1, 0, 1, 2, 40]))
                raw = bytes([0, 1]) + C.rep(ln, rng.randrange(256))
                exp = ("append:%d" % ln) if ln > th else "pass"
            elif kind < 0.7:
                raw, exp = b"", "pass"
            elif kind < 0.8:
                raw, exp = bytes([rng.randrange(256)]), "err"
            elif kind < 0.9:
                # the pointer bit is set: passes through whatever follows (even if no pointer decodes from it)
                raw = bytes([rng.choice([1, 3, 255]), rng.randrange(256)]) + bytes(rng.randrange(256) for _ in range(rng.choice([0, 3, 25, 30])))
                exp = "pass"
            else:
                ln = rng.choice([0, 1, th, th + 1, th + 5])
                raw = bytes([rng.choice([0, 2, 4, 254]), rng.randrange(256)]) + C.rep(ln, 7)
                exp = ("append:%d" % ln) if ln > th else "pass"
            out.append(("vp sep %d %s" % (th, hx(raw)), exp))
        elif r < 0.85:
            # a memtable flush with separation: distinct ascending user keys, small files (rotation inside the flush)
            th, mx = rng.choice([0, 1, 8, 16, 64]), rng.choice([32, 64, 100, 256, 4096])
            keys = sorted(set("6b%02x" % rng.randrange(256) + ("%02x" % rng.randrange(256)) * rng.randint(0, 2) for _ in range(rng.randint(1, 9))),
                          key=lambda h: bytes.fromhex(h))
            ents = []
            for j, k in enumerate(keys):
                if rng.random() < 0.15:
                    ents.append("%s/%d/d/-" % (k, 10 + j))
                else:
                    ln = max(0, th + rng.choice([-1, 0, 1, 2, 30, 200]))
                    ents.append("%s/%d/s/%s" % (k, 10 + j, ("rep:%d:%d" % (ln, rng.randrange(256))) if ln else "-"))
            out.append(("vp flush %d %d %d %s" % (th, mx, rng.randint(1, 9), ",".join(ents) or "-"), None))
        else:
            # a value log of its own: appends around the rotation limit, reads of every pointer at both checksum
            # levels, reads of wrong pointers, clean-up with every minimum, reopen, more appends
            mx, full = rng.choice([31, 32, 64, 100, 256]), rng.randint(0, 1)
            out.append(("vp lognew %d %d" % (mx, full), "ok"))
            files, active, nxt, ptrs = {}, 0, 1, []

            def append(k, v):
                nonlocal active, nxt
                if active == 0 or files[active] >= mx:
                    files[nxt] = 31
                    active, nxt = nxt, nxt + 1
                p = (1, active, files[active], len(k), len(v), zlib.crc32(k + v) & 0xffffffff)
                files[active] += 12 + len(k) + len(v)
                return p
            for rnd in range(2):
                for _ in range(rng.randint(1, 6)):
                    k = bytes.fromhex("6b%02x" % rng.randrange(256))
                    seed, ln = rng.randrange(256), rng.choice([0, 1, 5, 20, 33, 70, 300])
                    v = C.rep(ln, seed)
                    p = append(k, v)
                    ptrs.append((p, v))
                    out.append(("vp append %s %s" % (k.hex(), ("rep:%d:%d" % (ln, seed)) if ln else "-"), "ptr:" + ".".join(map(str, p))))
                out.append(("vp state", "files=%s active=%d next=%d" % (",".join("%d:%d" % kv for kv in sorted(files.items())), active, nxt)))
                for p, v in rng.sample(ptrs, min(len(ptrs), 4)):
                    exp = "val:" + (("#%d/%s" % (len(v), C.fnv(v))) if len(v) > 16 else hx(v)) if p[1] in files else "err"
                    out.append(("vp get " + " ".join(map(str, p)), exp))
                    q = list(p)
                    q[rng.choice([2, 3, 4, 5])] += 1           # a wrong pointer: model and implementation must agree
                    out.append(("vp get " + " ".join(map(str, q)), None))
                out.append(("vp file %d" % rng.choice(list(files)), None))
                m = rng.choice([0, 1, 2, active, active + 1, nxt + 3])
                if m:
                    for f in [f for f in files if f < m and f != active]:
                        del files[f]
                out.append(("vp cleanup %d" % m, "files=%s active=%d next=%d" % (",".join("%d:%d" % kv for kv in sorted(files.items())), active, nxt)))
                if rnd == 0:
                    out.append(("vp reopen", "files=%s active=%d next=%d" % (",".join("%d:%d" % kv for kv in sorted(files.items())), active, nxt)))
    return out


def codec_differential(ctx):
    rng = C.Rng(ctx["seed"] * 7919 + 11)
    n = 900 if ctx["tier"] == "quick" else 12000
    items = codec_script(rng, n)
    # the value-log blocks are stateful: shard on block boundaries
    blocks, cur = [], []
    for it in items:
        if it[0].startswith("vp lognew") and cur:
            blocks.append(cur)
            cur = []
        cur.append(it)
    blocks.append(cur)
    shards = C.shard(blocks, C.NCPU)
    scripts = [[c for b in sh for (c, _) in b] for sh in shards]
    res = C.run_pairs(scripts, sides=("impl", "model") if ctx["have_model"] else ("impl",))
    viol, dis, kinds, n_eval = [], [], {}, 0
    for sh, r in zip(shards, res):
        cmds = [it for b in sh for it in b]
        impl = r["impl"][0]
        model = r["model"][0] if "model" in r else None
        for j, (c, exp) in enumerate(cmds):
            n_eval += 1
            kinds[c.split()[1]] = kinds.get(c.split()[1], 0) + 1
            gi = impl[j] if j < len(impl) else "<missing>"
            gm = (model[j] if j < len(model) else "<missing>") if model is not None else None
            if exp is not None and gi != exp and len(viol) < 5:
                # the oracle is the property: a pointer decodes to what was encoded, `get` returns what `append` wrote
                ctxl = [x for (x, _) in cmds[max(0, j - 30):j + 1]]
                k0 = max((i for i, x in enumerate(ctxl) if x.startswith("vp lognew")), default=0)
                viol.append(("value-log codec: `%s` answers %s, expected %s" % (c[:200], gi[:200], exp[:200]),
                             "# property=C11\n# oracle: pointer/location/entry codec (python)\n" + "".join("> %s\n" % x for x in ctxl[k0:]) + "IMPL:  %s\nWANT:  %s\n" % (gi, exp)))
            if gm is not None and gm != gi and len(dis) < 10:
                dis.append("vp: model and implementation differ on `%s`: impl %s, model %s" % (c[:300], gi[:200], gm[:200]))
    return viol, dis, dict(commands=n_eval, by_kind=kinds)


# ------------------------------------------------------------------------------------------------------
# (i-b) damage differential (finding F41, repaired): a value log of its own — append entries, close, CUT one file at some
# offset, open again (new block cache; the writer continues at the end of the highest-numbered file, i.e. at the cut
# position), append others, read the NEW pointers (fills the cache at (file id, offset)), read the OLD pointers — crate vs
# extracted model (`vp cut`, `vp get`; the model's cache rule is the GENERATED one, VlogParams.VLOG_CACHE_HIT_CHECKED) vs a
# python oracle that plays VLog::get's file path on the simulated file bytes.  Under Full verification an old pointer
# must answer the value written under it or an error — never the value of the entry that now sits at its offset.
# Also run by C16 (tools/vlib/c16.py), where a failing input is of class vlog_truncated_wrong_data.
VHDR = 31


def py_entry(k, v):
    return struct.pack(">II", len(k), len(v)) + k + v + struct.pack(">I", zlib.crc32(k + v) & 0xffffffff)


def py_read(files, p, full):
    """VLog::get below the cache on the simulated files: val bytes or None (error)"""
    _, fid, off, kl, vl, crc = p
    if fid not in files:
        return None
    n = 8 + kl + vl + 4
    e = bytes(files[fid][off:off + n])
    e += bytes(n - len(e))                   # a short read leaves zeros
    if struct.unpack(">II", e[:8]) != (kl, vl):
        return None
    key, val = e[8:8 + kl], e[8 + kl:8 + kl + vl]
    if full:
        if struct.unpack(">I", e[8 + kl + vl:])[0] != crc or (zlib.crc32(key + val) & 0xffffffff) != crc:
            return None
    return val


def show_bytes(v):
    return ("#%d/%s" % (len(v), C.fnv(v))) if len(v) > 16 else hx(v)


def cut_script(rng, n):
    """n scenarios; items (command, python-oracle answer or None, note)"""
    out = []
    keys = [bytes.fromhex(x) for x in ("6b30", "6b31", "6b32")]
    for _ in range(n):
        mx, full = rng.choice([64, 100, 256, 4096, 4096]), (1 if rng.random() < 0.8 else 0)
        out.append(("vp lognew %d %d" % (mx, full), "ok", ""))
        files, ids = {}, dict(active=0, nxt=1)

        def state():
            return "files=%s active=%d next=%d" % (",".join("%d:%d" % (i, len(b)) for i, b in sorted(files.items())), ids["active"], ids["nxt"])

        def append(k, v):
            if ids["active"] == 0 or len(files[ids["active"]]) >= mx:
                files[ids["nxt"]] = bytearray(b"H" * VHDR)
                ids["active"], ids["nxt"] = ids["nxt"], ids["nxt"] + 1
            a = ids["active"]
            p = (1, a, len(files[a]), len(k), len(v), zlib.crc32(k + v) & 0xffffffff)
            files[a] += py_entry(k, v)
            return p

        def emit_append(k, ln, sd, into):
            v = C.rep(ln, sd)
            p = append(k, v)
            into.append((p, k, v))
            out.append(("vp append %s %s" % (k.hex(), ("rep:%d:%d" % (ln, sd)) if ln else "-"), "ptr:" + ".".join(map(str, p)), ""))

        def emit_get(p, v, note, exact=None):
            # exact: the oracle's answer; None = model and implementation must agree, no oracle
            exp = None
            if exact is not None:
                r = py_read(files, p, full)
                exp = ("val:" + show_bytes(r)) if r is not None else "err"
            out.append(("vp get " + " ".join(map(str, p)), exp, note))

        lens = rng.choice([[3], [0, 1, 3], [3, 5], [1, 3, 20], [3, 3, 40], [7, 7, 9]])
        A, B = [], []
        for _ in range(rng.randint(1, 6)):
            emit_append(rng.choice(keys), rng.choice(lens), rng.randrange(4), A)
        out.append(("vp state", state(), ""))
        for p, k, v in rng.sample(A, min(len(A), 2)):
            emit_get(p, v, "before the cut", exact=True)
        # the cut: mostly the highest-numbered file (the one the writer continues), at entry boundaries and inside entries
        fid = ids["active"] if rng.random() < 0.85 else rng.choice(sorted(files))
        L = len(files[fid])
        cands = {0, 1, VHDR - 1, VHDR, L}
        for p, k, v in A:
            if p[1] == fid:
                o, e = p[2], p[2] + 12 + len(k) + len(v)
                cands |= {o, o + 1, o + 4, o + 8, o + 8 + len(k), o + 8 + len(k) + len(v) // 2, e - 4, e - 1, e}
        off = rng.choice(sorted(c for c in cands if 0 <= c <= L))
        b = bytes(files[fid][:off])
        if len(b) < VHDR:
            b = b""                            # a torn header is emptied by the open (VLOG_OPEN_EMPTIES_TORN_HEADER)
        if fid == max(files) and not b:
            b = b"H" * VHDR                    # the writer completes the highest-numbered file
        files[fid] = bytearray(b)
        ids["active"], ids["nxt"] = max(files), max(files) + 1
        out.append(("vp cut %d %d" % (fid, off), state(), ""))
        # new entries: sometimes exactly what was cut away (identical pointers: a legitimate hit), mostly other values of
        # the same key and value sizes (the old pointer differs in the checksum only), or other sizes
        lost = [(p, k, v) for (p, k, v) in A if p[1] == fid and p[2] + 12 + len(k) + len(v) > off]
        mode = rng.random()
        for j in range(rng.randint(1, 5)):
            if lost and j < len(lost) and mode < 0.25:
                _, k, v = lost[j]
                p = append(k, v)
                B.append((p, k, v))
                out.append(("vp append %s %s" % (k.hex(), hx(v) if len(v) <= 16 else "-"), None if len(v) > 16 else "ptr:" + ".".join(map(str, p)), ""))
                if len(v) > 16:                # long values are written with rep: tokens only; keep the oracle exact
                    out.pop()
                    B.pop()
                    files[p[1]] = files[p[1]][:p[2]]
                    emit_append(k, len(v), 9, B)
            elif lost and j < len(lost) and mode < 0.8:
                _, k, v = lost[j]
                emit_append(rng.choice(keys), len(v), 4 + rng.randrange(4), B)
            else:
                emit_append(rng.choice(keys), rng.choice(lens), 4 + rng.randrange(4), B)
        out.append(("vp state", state(), ""))
        # some old pointers first (nothing cached yet: the file path answers), then the new ones (fill the cache), then
        # every old pointer (the F41 reads), then everything again plus pointers with one altered field
        for p, k, v in rng.sample(A, min(len(A), 2)):
            emit_get(p, v, "old pointer, cache empty", exact=True if full else None)
        for p, k, v in B:
            emit_get(p, v, "new pointer", exact=True)
        newat = set((q[1], q[2]) for q, _, _ in B)
        for p, k, v in A:
            emit_get(p, v, "OLD pointer after the cache was filled" + (", a new entry starts at its offset" if (p[1], p[2]) in newat else ""),
                     exact=True if full else None)
        both = A + B
        rng.shuffle(both)
        for p, k, v in both:
            emit_get(p, v, "second read", exact=True if full else None)
            if rng.random() < 0.3:
                q = list(p)
                q[rng.choice([3, 4, 5])] += 1
                emit_get(tuple(q), v, "altered pointer", exact=None)
                emit_get(p, v, "after the altered pointer", exact=True if full else None)
    return out


def cut_differential(ctx, pid="C11"):
    """-> (violations [(desc, replay text)], disagreements, stats)"""
    rng = C.Rng(ctx["seed"] * 15485863 + 41)
    n = 400 if ctx["tier"] == "quick" else 6000
    items = cut_script(rng, n)
    blocks, cur = [], []
    for it in items:
        if it[0].startswith("vp lognew") and cur:
            blocks.append(cur)
            cur = []
        cur.append(it)
    blocks.append(cur)
    shards = C.shard(blocks, C.NCPU)
    scripts = [[c for b in sh for (c, _, _) in b] for sh in shards]
    have_model = ctx.get("have_model")
    res = C.run_pairs(scripts, sides=("impl", "model") if have_model else ("impl",))
    viol, dis = [], []
    st = dict(scenarios=n, commands=0, old_pointer_reads=0, old_pointer_errors=0, old_pointer_values=0, old_pointer_reads_at_new_entry=0)
    for sh, r in zip(shards, res):
        impl = r["impl"][0]
        model = r["model"][0] if "model" in r else None
        pos = 0
        for blk in sh:
            gi = impl[pos:pos + len(blk)]
            gm = model[pos:pos + len(blk)] if model is not None else None
            pos += len(blk)
            for j, (c, exp, note) in enumerate(blk):
                st["commands"] += 1
                a = gi[j] if j < len(gi) else "<missing>"
                m = (gm[j] if j < len(gm) else "<missing>") if gm is not None else None
                if note.startswith("OLD pointer"):
                    st["old_pointer_reads"] += 1
                    st["old_pointer_errors" if a == "err" else "old_pointer_values"] += 1
                    if "a new entry starts" in note:
                        st["old_pointer_reads_at_new_entry"] += 1
                if exp is not None and a != exp and len(viol) < 5:
                    what = "value log cut and appended to again: `%s` (%s) answers %s, expected %s" % (c, note or "oracle", a[:120], exp[:120])
                    text = ["# property=%s engine=vp (value log of its own; damage differential)" % pid,
                            "# oracle: VLog::get's file path on the simulated file bytes (python): the value written under the pointer, or an error",
                            "# " + what]
                    for i2, (c2, e2, n2) in enumerate(blk[:j + 1]):
                        text.append("> %s%s" % (c2, ("      # " + n2) if n2 else ""))
                        text.append("IMPL:  %s" % (gi[i2] if i2 < len(gi) else "<missing>"))
                        if gm is not None:
                            text.append("MODEL: %s" % (gm[i2] if i2 < len(gm) else "<missing>"))
                        if e2 is not None:
                            text.append("WANT:  %s" % e2)
                    viol.append((what, "\n".join(text) + "\n"))
                if m is not None and m != a and len(dis) < 10:
                    dis.append("vp (cut differential): model and implementation differ on `%s` (%s): impl %s, model %s || block: %s"
                               % (c, note, a[:120], m[:120], " ; ".join(x for (x, _, _) in blk[:j + 1])[:1200]))
    viol.sort(key=lambda x: len(x[1]))       # the shortest history first
    return viol, dis, st


# ------------------------------------------------------------------------------------------------------
# (ii) state-machine conformance: E2 programs with the value log; after every physical command the real
# value-log directory, writer ids and every live table (oldest_vlog_file_id, stored values) are dumped through the
# facade; the same flush / compaction / reopen sequence is replayed in the extracted Lsm/Vlog.v machine
# (`vl` commands: it decides separation, rotation, pointers, oldest ids, the clean-up) and compared after
# every command.
PHYS = ("flush", "flush1", "compact", "compactauto", "reopen", "open")
PHYS_RT = ("flush", "flush1", "compact", "compactauto")     # commands whose clean-up looks at the registered readers
CONF_OPTS = ["lc=2,vlog=1,vth=8,vfs=64", "lc=3,vlog=1,vth=1,vfs=256", "lc=2,vlog=1,vth=0,vfs=128", "lc=2,vlog=1,vth=64,vfs=4096",
             "lc=1,vlog=1,vth=8,vfs=64", "lc=2,vlog=1,vth=8,vfs=64,vck=1", "lc=2,vlog=1,vth=8,vfs=100,foc=1",
             "lc=2,ver=1,vlog=1,vth=0,vfs=96,idx=1", "lc=3,ver=1,vlog=1,vth=0,vfs=64,idx=1,ret=1", "lc=2,ver=1,vlog=1,vth=0,vfs=128,ret=5"]


def conf_values(rng, n):
    size = rng.choice([0, 1, 2, 4, 5, 7, 8, 9, 63, 64, 65, 120, 200, 700])
    return "-" if size == 0 else "rep:%d:%d" % (size, n & 255)


class DumpGen(G.ProgGen):
    clock = 0

    def emit(self, line):
        if line.split()[1] in PHYS_RT:
            # which readers are registered when the command runs (the run-time clean-up is skipped while there are any)
            self.lines.append("e2 snapshots")
            self.exp.append("-")
        a = G.ProgGen.emit(self, line)
        if line.split()[1] in PHYS:
            self.lines.append("e2 vlogdump")
            self.exp.append("-")
        return a

    def step(self):
        # versioned stores: the clock moves, so that retention (ret=N) lets compactions drop old versions
        if "ver=1" in self.opts and self.rng.random() < 0.08:
            self.clock += self.rng.choice([1, 3, 10, 1000])
            self.emit("e2 clock %d" % self.clock)
        G.ProgGen.step(self)


def directed_program(rng, model, opts):
    """write rounds over a few keys (overwrites and deletes make value-log files obsolete), each followed by flush /
    compaction / reopen, sometimes under a held reader; every physical command is followed by a dump"""
    lines, exp = [], []

    def emit(l):
        if l.split()[1] in PHYS_RT:
            lines.append("e2 snapshots")
            exp.append("-")
        lines.append(l)
        exp.append(model.ask(l))
        if l.split()[1] in PHYS:
            lines.append("e2 vlogdump")
            exp.append("-")
    lc = opt_of(opts, "lc", 3)
    keys = rng.sample(["61", "62", "6162", "63", "6200", "64"], rng.randint(2, 5))
    th = opt_of(opts, "vth", 8)
    emit("e2 new")
    emit("e2 open " + opts)
    tx, clock, held = 0, 0, []
    for rnd in range(rng.randint(5, 14)):
        for _ in range(rng.randint(1, 3)):
            tx += 1
            emit("e2 begin %d rw" % tx)
            for _ in range(rng.randint(1, 4)):
                k = rng.choice(keys)
                r = rng.random()
                if r < 0.8:
                    ln = max(0, th + rng.choice([-1, 0, 1, 1, 2, 20, 20, 50, 90, 300]))
                    emit("e2 set %d %s %s" % (tx, k, ("rep:%d:%d" % (ln, (tx * 7 + rnd) & 255)) if ln else "-"))
                elif r < 0.9:
                    emit("e2 del %d %s" % (tx, k))
                else:
                    emit("e2 sdel %d %s" % (tx, k))
            emit("e2 commit %d" % tx)
            emit("e2 drop %d" % tx)
        if "ver=1" in opts and rng.random() < 0.5:
            clock += rng.choice([1, 3, 10, 1000])
            emit("e2 clock %d" % clock)
        if rng.random() < 0.15 and len(held) < 2:
            tx += 1
            emit("e2 begin %d ro" % tx)
            emit("e2 get %d %s" % (tx, rng.choice(keys)))
            held.append(tx)
        elif held and rng.random() < 0.3:
            emit("e2 drop %d" % held.pop(0))
        r = rng.random()
        if r < 0.1:
            emit("e2 rotate")
            continue
        emit("e2 flush" if r < 0.9 else "e2 flush1")
        for _ in range(rng.choice([0, 1, 1, 2, 3])):
            emit("e2 compact %d" % rng.randint(0, max(0, lc - 1)))
        if rng.random() < 0.1:
            emit("e2 compactauto")
        for h in held:
            emit("e2 get %d %s" % (h, rng.choice(keys)))
        if rng.random() < 0.12:
            emit("e2 reopen")
            held = []
    tx += 1
    emit("e2 begin %d ro" % tx)
    emit("e2 scan %d - ff00 f" % tx)
    for k in keys:
        emit("e2 get %d %s" % (tx, k))
    return lines, exp


def parse_dump(line):
    """vlog:files=..;active=..;next=..;min=..;tables=..;index=.. -> dict (checksums zeroed, levels dropped)"""
    if not line.startswith("vlog:files="):
        return None
    d = dict(kv.split("=", 1) for kv in line[5:].split(";"))
    tables = {}
    for t in [x for x in d["tables"].split("|") if x]:
        m = re.match(r"(\d+)(?:@\d+)?/(\d+)\[(.*)\]$", t)
        tables[int(m.group(1))] = (int(m.group(2)), [norm_entry(e) for e in m.group(3).split(",") if e])
    idx = None if d["index"] == "off" else sorted(norm_entry(e) for e in d["index"][1:-1].split(",") if e)
    return dict(files=d["files"], active=int(d["active"]), next=int(d["next"]), min=int(d["min"]), tables=tables, index=idx)


def norm_entry(e):
    k, s = e.split("=", 1)
    if s.startswith("p:"):
        f = s[2:].split(".")
        f[5] = "0"
        s = "p:" + ".".join(f)
    return k + "=" + s


def mem_entry(e):
    k, s = e.split("=", 1)
    if s == "t":
        return k + "=t"
    if s.startswith("p:"):
        return "%s=s:%s" % (k, s[2:].split(".")[4])
    if s.startswith("i:"):
        return "%s=s:%s" % (k, s[2:])
    return None


def opt_of(opts, key, default):
    for kv in opts.split(","):
        if kv.startswith(key + "="):
            return int(kv.split("=")[1])
    return default


def derive(lines, g, opts, stats):
    """the `vl` script of one executed program and, per script line, what the model's answer must equal:
    returns (script, checks, error or None).  Before every run-time physical command the script sets the number of
    registered readers (`e2 snapshots` of the implementation) so that the model decides whether the clean-up runs."""
    sc = ["vl new %d %d %d %d" % (opt_of(opts, "vth", 4096), opt_of(opts, "vfs", 1 << 28), opt_of(opts, "vck", 0), opt_of(opts, "idx", 0))]
    ck = [None]
    prev = dict(tables={}, files="", index=None)
    for j, l in enumerate(lines):
        if l != "e2 vlogdump" or j >= len(g):
            continue
        cur = parse_dump(g[j])
        cmd = lines[j - 1].split()[1]
        if cur is None:
            return sc, ck, "vlogdump failed after `%s`: %s" % (lines[j - 1], g[j][:200])
        readers = 0
        if cmd in PHYS_RT:
            if j < 2 or lines[j - 2] != "e2 snapshots" or not g[j - 2].startswith("snapshots:["):
                return sc, ck, "no reader set recorded before `%s`" % lines[j - 1]
            readers = len([x for x in g[j - 2][len("snapshots:["):-1].split(",") if x.strip()])
        added = sorted(set(cur["tables"]) - set(prev["tables"]))
        removed = sorted(set(prev["tables"]) - set(cur["tables"]))
        steps = []
        if cmd in ("compact", "compactauto"):
            if removed or added:
                if len(added) > 1:
                    stats["unmodelled"] += 1
                    return sc, ck, None
                out = cur["tables"][added[0]][1] if added else []
                steps.append("vl compact %s %d %s" % (",".join(map(str, removed)) or "-", added[0] if added else 0, ",".join(out) or "-"))
                stats["compact_steps"] += 1
        else:
            if removed:
                stats["unmodelled"] += 1
                return sc, ck, None
            for tid in added:
                mem = [mem_entry(e) for e in cur["tables"][tid][1]]
                if None in mem:
                    stats["unmodelled"] += 1
                    return sc, ck, None
                steps.append("vl flush %d %s" % (tid, ",".join(mem) or "-"))
                stats["flush_steps"] += 1
            if cmd == "reopen":
                steps.append("vl reopen")
                stats["reopen_steps"] += 1
        if not steps:
            steps = ["vl state"]
        elif cmd in PHYS_RT:
            sc.append("vl readers %d" % readers)
            ck.append(None)
            if readers:
                stats["steps_under_readers"] += 1
        for s in steps[:-1]:
            sc.append(s)
            ck.append(None)
        sc.append(steps[-1])
        ck.append((cur, lines[:j + 1]))
        pf = set(x.split(":")[0] for x in prev["files"].split(",") if x)
        cf = set(x.split(":")[0] for x in cur["files"].split(",") if x)
        stats["files_removed"] += len(pf - cf)
        stats["rotations"] += len(cf - pf)
        stats["tables_with_pointers"] += sum(1 for t in added if cur["tables"][t][0] > 0)
        if prev["index"] is not None and cur["index"] is not None:
            stats["index_entries_pruned"] += max(0, len(prev["index"]) + sum(len(cur["tables"][t][1]) for t in added if cmd not in ("compact", "compactauto")) - len(cur["index"]))
        if cmd in PHYS_RT and steps != ["vl state"]:
            # was a clean-up due that the readers held back?  (some file below the minimum, not the active one, still there)
            ids = sorted(int(x) for x in cf)
            if readers and cur["min"] and any(i < cur["min"] and i != cur["active"] for i in ids):
                stats["cleanups_deferred"] += 1
        prev = cur
    return sc, ck, None


def compare(scripts, checks, stats, disagreements):
    shards = C.shard(list(range(len(scripts))), C.NCPU)
    out = C.run_pairs([[l for i in sh for l in scripts[i]] for sh in shards], sides=("model",))
    for sh, r in zip(shards, out):
        ans = r["model"][0]
        pos = 0
        for i in sh:
            a = ans[pos:pos + len(scripts[i])]
            pos += len(scripts[i])
            for k, c in enumerate(checks[i]):
                if c is None:
                    continue
                stats["steps"] += 1
                cur, upto = c
                m = parse_dump(a[k]) if k < len(a) else None
                bad = None
                if m is None:
                    bad = "the model refuses `%s`: %s" % (scripts[i][k][:200], (a[k] if k < len(a) else "<missing>")[:100])
                else:
                    for fld in ("files", "active", "next", "min", "tables", "index"):
                        if m[fld] != cur[fld]:
                            bad = "%s differ after `%s`: implementation %s, model %s" % (fld, upto[-2], str(cur[fld])[:300], str(m[fld])[:300])
                            break
                if bad:
                    if len(disagreements) < 6:
                        disagreements.append("value-log state machine: " + bad + " || program: " +
                                             " ; ".join(x[3:] for x in upto if x not in ("e2 vlogdump", "e2 snapshots"))[:1500])
                    break


def new_stats(n):
    return dict(programs=n, steps=0, flush_steps=0, compact_steps=0, reopen_steps=0, files_removed=0, rotations=0, tables_with_pointers=0,
                index_entries_pruned=0, steps_under_readers=0, cleanups_deferred=0, unmodelled=0, api_mismatch=0)


def conformance(ctx):
    rng = C.Rng(ctx["seed"] * 104729 + 5)
    n = 60 if ctx["tier"] == "quick" else 900
    res = dict(violations=[], disagreements=[], cov={})
    if not ctx["have_model"]:
        res["disagreements"].append("value-log machine unavailable (extraction/driver did not build)")
        return res
    model = G.Model()
    W2 = dict(begin=8, write=44, get=6, scan=2, range=2, cur=4, sp=0, rbsp=0, commit=14, rollback=1, drop=6,
              rotate=4, flush=12, flush1=4, compact=16, compactauto=2, reopen=3)
    programs = []
    for i in range(n):
        opts = CONF_OPTS[i % len(CONF_OPTS)]
        if (i // len(CONF_OPTS)) % 3 != 2:
            lines, exp = directed_program(rng, model, opts)
            programs.append((lines, exp, opts))
            continue
        g = DumpGen(rng, model, opts=opts, weights=W2, keys=["61", "62", "6162", "63", "6200", "64"], max_tx=3, values=conf_values,
                    ts_mode=False)
        g.start()
        for _ in range(rng.randint(50, 130)):
            g.step()
        lines, exp = g.finish()
        programs.append((lines, exp, opts))
    model.close()
    got = G.run_impl([(l, e) for (l, e, _) in programs])
    scripts, checks = [], []
    stats = new_stats(len(programs))
    for (lines, exp, opts), g in zip(programs, got):
        g = g or []
        # the API answers must still equal the specification machine (dump lines are informational)
        for j, l in enumerate(lines):
            if l == "e2 vlogdump" or l in G.INFO:
                continue
            gj = g[j] if j < len(g) else "<missing>"
            if gj != exp[j]:
                stats["api_mismatch"] += 1
                if len(res["violations"]) < 2:
                    desc = "`%s`: implementation answers %s, specification %s (conformance run, options %s)" % (l, gj[:160], exp[j][:160], opts)
                    res["violations"].append((desc, G.replay_text("C11", desc, lines[:j + 1], exp[:j + 1], g[:j + 1])))
                break
        sc, ck, err = derive(lines, g, opts, stats)
        if err and len(res["disagreements"]) < 6:
            res["disagreements"].append(err)
        scripts.append(sc)
        checks.append(ck)
    compare(scripts, checks, stats, res["disagreements"])
    res["cov"] = stats
    return res


# ------------------------------------------------------------------------------------------------------
# (iii) regression of C11-N1 (repaired): a cursor opened on an older table set and held across a compaction is served —
# the clean-up after the flush / compaction is skipped while a reader is registered (Props/C11.v C11_old_reader_served) —
# and nothing leaks: once the reader has gone, the next flush removes the files (file sets compared with the model).
def held_reader_probe(ctx):
    """returns (violations, disagreements, commands)"""
    out, dis, total = [], [], 0
    v1, v2 = C.rep(30, 1), C.rep(30, 2)
    s1, s2 = "#%d/%s" % (len(v1), C.fnv(v1)), "#%d/%s" % (len(v2), C.fnv(v2))
    variants = [
        ("history cursor (versioning, retention passed)", "lc=2,ver=1,vlog=1,vth=0,vfs=64,ret=1", "e2 histopen 9 1 61 62 0", "cur:61=" + s2, "cur:61=" + s1),
        ("range cursor", "lc=2,vlog=1,vth=0,vfs=64", "e2 range 9 1 ~ ~", "cur:61=" + s2, "cur:invalid"),
    ]
    scripts, checks, stats = [], [], new_stats(len(variants))
    for what, opts, opencur, first, nxt in variants:
        L, want = [], {}

        def emit(l, expect=None):
            if l.split()[1] in PHYS_RT:
                L.append("e2 snapshots")
            if expect is not None:
                want[len(L)] = expect
            L.append(l)
            if l.split()[1] in PHYS:
                L.append("e2 vlogdump")
        emit("e2 new")
        emit("e2 open " + opts)
        for tx, clk, sd in ((1, 100, 1), (2, 200, 2)):
            emit("e2 clock %d" % clk)
            emit("e2 begin %d rw" % tx)
            emit("e2 set %d 61 rep:30:%d" % (tx, sd))
            emit("e2 commit %d" % tx)
            emit("e2 drop %d" % tx)
            emit("e2 flush")
        emit("e2 begin 9 ro")
        emit(opencur, "ok")
        emit("e2 cur 1 first", first)
        emit("e2 clock 1000000000")
        emit("e2 compact 0")
        # ... and a flush while the reader is still open (the other run-time call site of the clean-up)
        emit("e2 begin 5 rw")
        emit("e2 set 5 63 rep:30:5")
        emit("e2 commit 5")
        emit("e2 drop 5")
        emit("e2 flush")
        d_held = len(L) - 1
        emit("e2 cur 1 next", nxt)                      # the cursor advances over its OLD table set
        emit("e2 get 9 61", "val:" + s2)
        emit("e2 curclose 1")
        emit("e2 drop 9")
        emit("e2 begin 3 rw")
        emit("e2 set 3 62 rep:30:3")
        emit("e2 commit 3")
        emit("e2 drop 3")
        emit("e2 flush")                                # no reader any more: the deferred clean-up runs
        d_after = len(L) - 1
        emit("e2 begin 4 ro")
        emit("e2 get 4 61", "val:" + s2)
        emit("e2 scan 4 - ff00 f")
        emit("e2 close")
        ans = C.run_pairs([L], sides=("impl",), timeout=120)[0]["impl"][0]
        total += len(L)
        bad = None
        if len(ans) < len(L):
            bad = "the run stopped after %d of %d commands: %s" % (len(ans), len(L), ans[-1:])
        else:
            for k, e in sorted(want.items()):
                if ans[k] != e:
                    bad = "`%s` answers %s, expected %s" % (L[k], ans[k][:300], e)
                    break
            held, after = parse_dump(ans[d_held]), parse_dump(ans[d_after])
            if bad is None and (held is None or after is None):
                bad = "vlogdump failed: %s / %s" % (ans[d_held][:100], ans[d_after][:100])
            if bad is None and not held["files"].startswith("1:"):
                bad = "value-log file 1 was removed by the compaction / flush although reader 9 is open: files %s" % held["files"]
            if bad is None and after["files"].startswith("1:"):
                bad = "value-log file 1 is still there after the reader has gone and a flush has run (leak): files %s, min %d" % (after["files"], after["min"])
        if bad:
            desc = "%s held across a compaction, options %s: %s" % (what, opts, bad)
            text = "\n".join(["# property=C11", "# oracle: an open reader is served from the table set it holds; the files go once it has gone", "# options: " + opts] +
                             ["> %s\nIMPL:  %s" % (l, ans[i] if i < len(ans) else "<missing>") for i, l in enumerate(L)]) + "\n"
            out.append((desc[:600], text))
            continue
        sc, ck, err = derive(L, ans, opts, stats)
        if err:
            dis.append(err)
        scripts.append(sc)
        checks.append(ck)
    if ctx["have_model"] and scripts:
        compare(scripts, checks, stats, dis)
    return out, dis, total, stats


def explore(ctx):
    r = G.explore_profiles(ctx, "C11", PROFILES, nontrivial, classify=classify, n_quick=200, n_thorough=3000)
    r["coverage"]["rule"] = ("API histories with the value log enabled: value sizes 0, threshold-1, threshold, threshold+1, multi-block (up to 100 kB), "
                             "vlog file sizes from 64 bytes (rotation inside one flush) upward, overwrite/delete patterns that make files obsolete, "
                             "readers and open cursors held across flush / compaction / clean-up, reopen; non-trivial = a compaction, separated values "
                             "and at least 3 commits")
    vv, nv = volume_index_gc(ctx)
    r["violations"] += vv[:2]
    r["coverage"]["evaluations"] += nv
    r["coverage"]["rule"] += "; plus a volume run (700-1700 keys written twice with the version index and 4 KiB value-log files, retention passed, one compaction) checked by a python oracle"
    # crash recovery with separated values: every crash image (process crash, power loss) must open and return
    # the acknowledged values byte for byte
    c = CW.explore(dict(ctx, seed=ctx["seed"] + 3000), "C11", {"open-failed", "acked-lost", "not-a-prefix"}, n_quick=6, n_thorough=40, opts_pool=CRASH_OPTS)
    r["violations"] += [(d, t) for (d, t, _) in c["violations"]][:3]
    cov, cc = r["coverage"], c["coverage"]
    cov["evaluations"] += cc["evaluations"]
    cov["distinct_nontrivial"] += cc["distinct_nontrivial"]
    cov["crash_images"] = cc.get("images")
    cov["crash_verdicts"] = cc.get("verdicts")
    cov["rule"] += "; plus crash images (recorder + file-system simulator, process crash and three power-loss policies) of workloads with separated values over value-log files of 64-256 bytes"
    # (i) codec differential
    cv, cd, cc2 = codec_differential(ctx)
    r["violations"] += cv[:2]
    r["disagreements"] += cd
    cov["evaluations"] += cc2["commands"]
    cov["disagreements_checked"] = cov.get("disagreements_checked", 0) + cc2["commands"]
    cov["vlog_codec"] = cc2
    # (i-b) damage differential: cut + re-append + old pointers (F41, repaired)
    dv, dd, ds = cut_differential(ctx, "C11")
    r["violations"] += dv[:2]
    r["disagreements"] += dd
    cov["evaluations"] += ds["commands"]
    cov["disagreements_checked"] += ds["commands"]
    cov["distinct_nontrivial"] += ds["old_pointer_reads"]
    cov["vlog_cut_differential"] = ds
    # (ii) state-machine conformance
    cf = conformance(ctx)
    r["violations"] += cf["violations"][:2]
    r["disagreements"] += cf["disagreements"]
    cov["vlog_machine"] = cf["cov"]
    cov["evaluations"] += cf["cov"].get("steps", 0)
    cov["disagreements_checked"] += cf["cov"].get("steps", 0)
    cov["distinct_nontrivial"] += cf["cov"].get("compact_steps", 0)
    # (iii) held reader: regression probe of the repaired C11-N1
    hv, hd, hn, hs = held_reader_probe(ctx)
    r["violations"] += hv[:1]
    r["disagreements"] += hd
    cov["evaluations"] += hn + hs.get("steps", 0)
    cov["held_reader_probe"] = dict(variants=hs.get("programs"), model_steps=hs.get("steps"), cleanups_deferred=hs.get("cleanups_deferred"), files_removed=hs.get("files_removed"))
    cov["rule"] += ("; plus (i) the value-log codec differential (`vp`: pointer / location encode-decode with boundary and malformed inputs, a value log of its own with "
                    "rotation, reads at both checksum levels, clean-up, reopen; memtable flush with separation) model vs implementation vs a python oracle; (i-b) the damage differential: append, close, cut one value-log file at an entry boundary / inside an entry / inside the header, "
                    "reopen, append others from the cut position (same sizes, other sizes, or the very entries that were lost), read the new pointers (fills the block cache), read the OLD "
                    "pointers, again with altered pointer fields: crate vs extracted model (generated cache rule) vs the file path played in python; (ii) state-machine "
                    "conformance: the real value-log directory, writer ids, every live table's oldest_vlog_file_id and stored values, and the version index after every physical "
                    "command vs the extracted Lsm/Vlog.v machine replaying the same flush / compaction / reopen sequence WITH the number of registered readers at each command (the run-time clean-up is skipped while there are any); (iii) regression probes of cursors held across a compaction: served from their old table set, files removed once the reader has gone")
    return r


replay = G.replay
