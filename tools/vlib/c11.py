"""C11 — separated large values stay intact and reachable (E2 engine with the value log enabled)."""
from . import e2gen as G
from . import common as C
from . import crashwl as CW

MODEL_TARGETS = ["theories/Spec/Machine.vo"]
TRUSTED = ["values are compared byte-for-byte through #len/fnv digests; the value log is invisible to the specification machine, "
           "so every dependence on separation, file rotation or clean-up shows as a difference"]
ASSUMPTIONS = ["sequential scripts"]
CRASH_OPTS = ["lc=2,vlog=1,vth=8,vfs=128", "lc=2,vlog=1,vth=8,vfs=256,foc=1", "lc=3,vlog=1,vth=4,vfs=64", "lc=2,vlog=1,vth=8,vfs=128,vck=1"]

OPTS = ["lc=2,vlog=1,vth=8,vfs=64", "lc=3,vlog=1,vth=1,vfs=256", "lc=2,vlog=1,vth=0,vfs=128", "lc=2,vlog=1,vth=64,vfs=4096",
        "lc=1,vlog=1,vth=8,vfs=64", "lc=3,vlog=1,vth=8,vfs=100000,bs=64", "lc=2,vlog=1,vth=8,vfs=64,vck=1"]


def values(rng, n):
    # sizes around every threshold in OPTS, plus multi-block values
    size = rng.choice([0, 1, 2, 7, 8, 9, 63, 64, 65, 200, 5000, 40000] if rng.random() < 0.9 else [100000])
    return "-" if size == 0 else "rep:%d:%d" % (size, n & 255)


W = dict(begin=8, write=40, get=16, scan=6, range=5, cur=14, sp=0, rbsp=0, commit=12, rollback=1, drop=3,
         rotate=3, flush=10, flush1=3, compact=14, compactauto=1, reopen=2)
PROFILES = [
    dict(name="vlog-sizes", opts=OPTS, weights=W, values=values, keys=["61", "62", "6162", "63", "6200"], max_tx=4, length=(60, 150)),
    dict(name="vlog-readers", opts=OPTS, weights=dict(W, begin=14, range=8, cur=24, compact=20, flush=14), values=values,
         keys=["61", "62", "63"], max_tx=5, length=(60, 150)),
]


def nontrivial(lines, exp):
    ops = [l.split()[1] for l in lines]
    return "compact" in ops and any("rep:" in l for l in lines) and ops.count("commit") >= 3


def classify(lines, exp, got):
    return None


def show(v):
    _, l, sd = v.split(":")
    b = C.rep(int(l), int(sd))
    return "#%d/%s" % (len(b), C.fnv(b)) if len(b) > 16 else b.hex()


def volume_index_gc(ctx):
    """a compaction that makes MANY flushed versions obsolete at once (value log + version index): every value-log file
    that is removed must first lose every index entry that points into it.  Implementation-only run with a python
    oracle: every current value is read back byte for byte; the history traversal raises no error, lists only versions
    that were written, and lists the newest version of every key.  Returns [(desc, replay_text)], n_commands."""
    rng = C.Rng(ctx["seed"] * 31 + 11)
    out, total = [], 0
    runs = [rng.choice([900, 1100, 1300])] if ctx["tier"] == "quick" else [700, 900, 1100, 1300, 1700]
    for n in runs:
        opts = "lc=2,ver=1,vlog=1,vth=0,vfs=4096,idx=1,ret=1"
        keys = ["6b%04x" % j for j in range(n)]
        L = ["e2 new", "e2 open " + opts]
        tx = 0
        vals = {}
        for rnd, clk in ((1, 100), (2, 200)):
            L.append("e2 clock %d" % clk)
            for c0 in range(0, n, 100):
                tx += 1
                L.append("e2 begin %d rw" % tx)
                for j in range(c0, min(n, c0 + 100)):
                    v = "rep:%d:%d" % (24 + (j % 7), (j * 3 + rnd) & 255)
                    vals[(keys[j], clk)] = show(v)
                    L.append("e2 set %d %s %s" % (tx, keys[j], v))
                L.append("e2 commit %d" % tx)
                L.append("e2 drop %d" % tx)      # a finished transaction object still holds its snapshot until it is dropped
            L.append("e2 flush")
        L += ["e2 clock 1000000000", "e2 compact 0"]
        tx += 1
        L.append("e2 begin %d ro" % tx)
        probe = [keys[j] for j in sorted(rng.sample(range(n), 40))]
        gi = len(L)
        L += ["e2 get %d %s" % (tx, k) for k in probe]
        hi = len(L)
        L.append("e2 history %d - ff 0 ~ ~ f" % tx)
        L.append("e2 close")
        total += len(L)
        ans = C.run_pairs([L], sides=("impl",), timeout=900)[0]["impl"][0]
        bad = None
        if len(ans) < len(L):
            bad = "the run stopped after %d of %d commands: %s" % (len(ans), len(L), ans[-1:] )
        else:
            for j, k in enumerate(probe):
                if ans[gi + j] != "val:" + vals[(k, 200)]:
                    bad = "`%s` answers %s, expected val:%s" % (L[gi + j], ans[gi + j][:120], vals[(k, 200)])
                    break
            h = ans[hi]
            if bad is None and not h.startswith("hist:"):
                bad = "history over all keys after the compaction fails: %s" % h[:300]
            if bad is None:
                seen_new = set()
                for item in [x for x in h[5:].split(",") if x]:
                    kt, v = item.split("=", 1)
                    k, ts = kt.split("@")
                    if vals.get((k, int(ts))) != v:
                        bad = "history lists %s, which was never written" % item
                        break
                    if int(ts) == 200:
                        seen_new.add(k)
                if bad is None and len(seen_new) != n:
                    bad = "history lists the newest version of %d of %d keys" % (len(seen_new), n)
        if bad:
            desc = "value log + version index, %d keys written twice, compaction: %s" % (n, bad)
            text = ["# property=C11", "# oracle: " + desc, "# options: " + opts, "# (implementation-only run; python oracle)"] + ["> " + l for l in L]
            out.append((desc[:400], "\n".join(text) + "\n"))
    return out, total


def explore(ctx):
    r = G.explore_profiles(ctx, "C11", PROFILES, nontrivial, classify=classify, n_quick=200, n_thorough=3000)
    r["coverage"]["rule"] = ("API histories with the value log enabled: value sizes 0, threshold-1, threshold, threshold+1, multi-block (up to 100 kB), "
                             "vlog file sizes from 64 bytes (rotation inside one flush) upward, overwrite/delete patterns that make files obsolete, "
                             "readers and open cursors held across flush / compaction / clean-up, reopen; non-trivial = a compaction, separated values "
                             "and at least 3 commits")
    vv, nv = volume_index_gc(ctx)
    r["violations"] += vv[:2]
    r["coverage"]["evaluations"] += nv
    r["coverage"]["rule"] += "; plus a volume run (700-1700 keys written twice with the version index and 4 KiB value-log files, retention passed, one compaction) checked by a python oracle"
    # crash recovery with separated values: every crash image (process crash, power loss) must open and return
    # the acknowledged values byte for byte
    c = CW.explore(dict(ctx, seed=ctx["seed"] + 3000), "C11", {"open-failed", "acked-lost", "not-a-prefix"}, n_quick=6, n_thorough=40, opts_pool=CRASH_OPTS)
    r["violations"] += [(d, t) for (d, t, _) in c["violations"]][:3]
    cov, cc = r["coverage"], c["coverage"]
    cov["evaluations"] += cc["evaluations"]
    cov["distinct_nontrivial"] += cc["distinct_nontrivial"]
    cov["crash_images"] = cc.get("images")
    cov["crash_verdicts"] = cc.get("verdicts")
    cov["rule"] += "; plus crash images (recorder + file-system simulator, process crash and three power-loss policies) of workloads with separated values over value-log files of 64-256 bytes"
    return r


replay = G.replay
