"""C05 — commits become visible atomically, in one real-time-consistent total order.

Engine E3 (tools/vlib/e3lib.py): seeded schedules of 2–10 committer threads, probe readers and the
background tasks on one store with tiny memtables, run on the instrumented crate under a
token-passing scheduler (random walk / PCT / sticky walk).  Probe transactions begun at random yield
points read ALL keys of ALL batches; the python oracle checks, on the implementation's answers only:
all-or-nothing per non-failed batch, no read beyond the horizon, real-time order (a commit() that
returned Ok before the probe loaded its horizon is fully visible), prefix order, monotone horizon
(sampled after every event).  Every recorded trace is replayed through the extracted LTS
(`Pipeline.pstep`): each event must be an enabled transition, the sampled horizon must equal the
model's after every event, each probe observation must equal the model's `classify` (the memtable
model of theorem read_all_or_nothing), and the boolean safety invariants must hold in every state."""
from . import common as C
from . import e3lib as E

PARAM_SECTIONS = ["pipeline"]
MODEL_TARGETS = ["theories/Conc/PipelineExplore.vo", "theories/Conc/CommitSeq.vo", "theories/Spec/Machine.vo",
                 "theories/Codec/WalInst.vo", "theories/Lsm/CompactKey.vo"]
TRUSTED = [
    "the LTS assumes sequentially consistent atomics; the Acquire/Release pairs relied upon are modelled, not verified: "
    "CommitBatch::seq_num store(Release)/load(Acquire); CommitBatch::applied store(Release)/load(Acquire); "
    "CommitQueue::head_tail load(Acquire)/fetch_add(Release)/compare_exchange_weak(Release,Relaxed); slots[i] load(Acquire)/store(Release); "
    "visible_seq_num load(Acquire)/compare_exchange_weak(Release,Relaxed); log_seq_num fetch_add(SeqCst); the memtable skiplist's "
    "publication of an inserted node before `applied` is set; the oneshot channel's send/receive ordering",
    "compare_exchange_weak is modelled without spurious failures (x86-64: none occur; the replay would reject one)",
    "head/tail are unbounded counters in the model (u32 with wrapping_add in the code): theorem wrap_ok relates them while head - tail <= slots",
    "engine E3: the harness scheduler serialises the actors at the yield points (src/verif/yieldp.rs, inserted cfg-guarded lines); "
    "the code between two yield points of one thread is taken to execute atomically at the moment the thread holds the token; "
    "runs in which the watchdog had to take the token back (`steals`/`forced` > 0) are validated but their rejections are not counted",
    "tools/vlib/e3lib.py (generator, parser, python oracle), harness/src/e3.rs, driver e3_cmd (event-name -> label table)",
]
ASSUMPTIONS = [
    "sequentially consistent memory for the pipeline's atomics (see trusted base)",
    "readers filter versions with seq <= horizon (Params PIPE_READ_FILTER_LE, anchors in src/snapshot.rs); the correctness of the read path "
    "over memtables/tables for a FIXED horizon is property C01",
    "theorems speak about batches whose commit did not fail; entries of a failed commit may be partially visible (C15)",
]

MIX = [("c05", 2400), ("mixed", 1000), ("fail", 400), ("small", 200), ("dup", 400), ("shim", 120), ("early", 150)]


def explore(ctx):
    pid = ctx["pid"]
    rng = C.Rng(ctx["seed"] * 7919 + 5)
    scheds = E.plan(rng, ctx["tier"] == "quick", MIX)
    viol, dis, cov, obs = E.campaign(pid, ctx, scheds, "c05")
    kf = C.known_findings(pid)
    res = dict(violations=[], known=[], disagreements=dis, coverage=cov)
    for cls, d, text in viol:
        if cls in kf:
            res["known"].append(cls + " — " + kf[cls])
        else:
            res["violations"].append(("%s: %s" % (cls, d), text))
    cov["evaluations"] = cov.get("schedules", 0)
    cov["distinct_nontrivial"] = cov.get("traces_validated", 0)
    cov["rule"] = ("implementation answers vs python oracle (all-or-nothing, real-time, prefix, monotone horizon); every trace replayed "
                   "through extracted Pipeline.pstep with the horizon compared after every event and every probe compared with `classify`")
    cov["observations"] = {k: len(v) for k, v in obs.items()}
    for k, v in obs.items():
        s, a, vl = v[0]
        C.write_replay(pid, "observation_%s.txt" % k, E.replay_text(pid, s, a, vl, "observation (not a C05 violation): " + k))
    return res


def replay(ctx):
    import re
    text = open(ctx["replay"]).read()
    m = re.search(r"^e3 run (\S+) (\S+)$", text, re.M)
    if not m:
        print("no `e3 run` line in the replay file")
        return 2
    s = dict(params=m.group(1), threads=m.group(2), fail=None, kind="replay", idx=0)
    f = re.search(r"VERIF_SHIM_FAIL=(\S+)", text)
    if f:
        s["fail"] = f.group(1)
    # sizes / counts from the threads string
    sizes, nrdr = {}, 0
    for t in s["threads"].split("|"):
        k, body = t.split(":")
        if k == "c":
            for x in body.split("/"):
                c, n, fl = x.split(".")
                sizes[int(c)] = (int(n), fl.replace("-", ""))
        elif k == "r":
            nrdr += len(body.split("/"))
    kv = dict(x.split("=") for x in s["params"].split(",") if "=" in x)
    s.update(sizes=sizes, ncommit=len(sizes), nrdr=nrdr, memlimit=int(kv.get("memlimit", 2)), l0limit=int(kv.get("l0limit", 8)))
    if s["fail"]:
        from . import crash
        crash.build_shim()
    a = E.run_schedules([s])[0]
    v = E.validate([s], [a], E.pipe_params())[0] if ctx["have_model"] else None
    r = E.analyse(s, a)
    print("answer:", {k: a.get(k) for k in ("status", "events", "steals", "forced", "close", "stuck")})
    print("results:", a.get("rets"))
    print("model:", v)
    bad = r["c05"] + r["c17"]
    for cls, d in bad:
        print("VIOLATION %s: %s" % (cls, d))
    for nt in r["notes"]:
        print("note:", nt)
    return 1 if bad else 0
