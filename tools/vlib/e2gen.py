"""Generator and checker for E2 (API-history) programs.

The generator drives the extracted specification machine interactively (so it knows, e.g., when a
cursor has run off an end and only seeks may follow), producing self-contained programs
(`e2 new` ... ) together with the specification's answers.  The implementation then runs the
same programs; answers are compared line by line."""
import subprocess, os
from . import common as C

KEYS = ["61", "6162", "616263", "62", "6200", "62ff", "63", "ff", "00", "6161", "7a", "61ff", "6100"]
INFO = ("e2 levels", "e2 snapshots", "e2 lvdump")


class Model:
    def __init__(self):
        self.p = subprocess.Popen("ulimit -s unlimited 2>/dev/null; exec " + C.DRIVER_BIN, shell=True, stdin=subprocess.PIPE,
                                  stdout=subprocess.PIPE, text=True, bufsize=1)

    def ask(self, line):
        self.p.stdin.write(line + "\n")
        self.p.stdin.flush()
        return self.p.stdout.readline().rstrip("\n")

    def close(self):
        try:
            self.p.stdin.close()
            self.p.wait(timeout=5)
        except Exception:
            self.p.kill()


DEFAULT_W = dict(begin=6, write=30, get=14, scan=6, range=3, cur=16, sp=4, rbsp=3, commit=8, rollback=2, drop=1,
                 rotate=3, flush=4, flush1=2, compact=5, compactauto=1, reopen=1)


class ProgGen:
    def __init__(self, rng, model, opts="lc=3", weights=None, keys=None, max_tx=4, values=None, ts_mode=False, modes=None):
        self.rng, self.m = rng, model
        self.opts = opts
        self.w = dict(DEFAULT_W)
        if weights:
            self.w.update(weights)
        self.keys = keys or KEYS
        self.max_tx = max_tx
        self.values = values
        self.ts_mode = ts_mode
        self.kind_weights = None
        self.modes = modes or [8, 2, 1]      # weights of rw / ro / wo at begin
        self.lines, self.exp = [], []
        self.tx = {}       # id -> dict(mode, closed, curs=set)
        self.cur = {}      # cid -> dict(tx, valid(bool), fresh)
        self.next_tx, self.next_cur = 1, 1
        self.vcount = 0
        self.lc = 3
        for kv in opts.split(","):
            if kv.startswith("lc="):
                self.lc = int(kv[3:])
        self.stats = {}

    def emit(self, line):
        a = self.m.ask(line)
        self.lines.append(line)
        self.exp.append(a)
        op = line.split()[1]
        self.stats[op] = self.stats.get(op, 0) + 1
        return a

    def key(self):
        return self.rng.choice(self.keys)

    def val(self):
        self.vcount += 1
        if self.values:
            return self.values(self.rng, self.vcount)
        r = self.rng.random()
        if r < 0.05:
            return "-"
        return "%04x" % (self.vcount & 0xffff)

    def bound(self):
        r = self.rng.random()
        if r < 0.15:
            return "~"
        return self.rng.choice(self.keys + ["60", "6101", "7b", "-"] if r < 0.9 else ["-"])

    def open_tx(self, writable=False, readable=False):
        out = []
        for i, t in self.tx.items():
            if t["closed"]:
                continue
            if writable and t["mode"] == "ro":
                continue
            if readable and t["mode"] == "wo":
                continue
            out.append(i)
        return out

    def close_cursors_of(self, i):
        for c in list(self.tx[i]["curs"]):
            self.emit("e2 curclose %d" % c)
            self.cur.pop(c, None)
        self.tx[i]["curs"] = set()

    def start(self):
        self.emit("e2 new")
        self.emit("e2 open " + self.opts)

    def step(self):
        rng = self.rng
        ops = [k for k, v in self.w.items() if v > 0]
        op = rng.choices(ops, [self.w[k] for k in ops])[0]
        if op == "begin":
            live = [i for i, t in self.tx.items() if not t["closed"]]
            if len(live) >= self.max_tx:
                return
            i = self.next_tx
            self.next_tx += 1
            mode = rng.choices(["rw", "ro", "wo"], self.modes)[0]
            self.emit("e2 begin %d %s" % (i, mode))
            self.tx[i] = dict(mode=mode, closed=False, curs=set())
        elif op == "write":
            # mostly valid targets, sometimes any transaction (error paths)
            cand = self.open_tx(writable=True) if rng.random() < 0.95 else list(self.tx)
            if not cand:
                return
            i = rng.choice(cand)
            self.close_cursors_of(i)
            k = self.key() if rng.random() < 0.98 else "-"
            kw = self.kind_weights or [10, 3, 2, 1, 2 if self.ts_mode else 0]
            kind = rng.choices(["set", "del", "sdel", "repl", "setat"], kw)[0]
            if kind == "set":
                self.emit("e2 set %d %s %s" % (i, k, self.val()))
            elif kind == "setat":
                self.emit("e2 setat %d %s %s %d" % (i, k, self.val(), rng.randint(1, 6) if self.kind_weights else rng.randint(1, 50)))
            elif kind == "repl":
                self.emit("e2 repl %d %s %s" % (i, k, self.val()))
            else:
                self.emit("e2 %s %d %s" % (kind, i, k))
        elif op == "get":
            cand = self.open_tx(readable=True) if rng.random() < 0.95 else list(self.tx)
            if not cand:
                return
            self.emit("e2 get %d %s" % (rng.choice(cand), self.key() if rng.random() < 0.98 else "-"))
        elif op == "scan":
            cand = self.open_tx(readable=True) if rng.random() < 0.95 else list(self.tx)
            if not cand:
                return
            self.emit("e2 scan %d %s %s %s" % (rng.choice(cand), self.bound(), self.bound(), rng.choice("fb")))
        elif op == "range":
            cand = self.open_tx(readable=True)
            if not cand or len(self.cur) >= 3:
                return
            i = rng.choice(cand)
            c = self.next_cur
            self.next_cur += 1
            lo, hi = self.bound(), self.bound()
            a = self.emit("e2 range %d %d %s %s" % (i, c, lo, hi))
            if a == "ok":
                def hb(x):
                    return b"" if x == "-" else bytes.fromhex(x)
                inb = [k for k in self.keys + ["60", "6101", "7b"]
                       if (lo == "~" or hb(lo) <= hb(k)) and (hi == "~" or hb(k) < hb(hi))]
                self.cur[c] = dict(tx=i, valid=False, fresh=True, targets=inb)
                self.tx[i]["curs"].add(c)
        elif op == "cur":
            if not self.cur:
                return
            c = rng.choice(list(self.cur))
            st = self.cur[c]
            if st["valid"]:
                o = rng.choices(["next", "prev", "first", "last", "seek"], [10, 10, 1, 1, 3])[0]
            else:
                # run off an end (or not positioned yet): only seeks
                o = rng.choices(["first", "last", "seek"], [3, 3, 3])[0]
            if o == "seek" and not st["targets"]:
                o = rng.choice(["first", "last"])
            if o == "seek":
                # the property only speaks about seek targets inside the bounds
                a = self.emit("e2 cur %d seek %s" % (c, rng.choice(st["targets"])))
            else:
                a = self.emit("e2 cur %d %s" % (c, o))
            st["valid"] = a.startswith("cur:") and a != "cur:invalid"
            st["fresh"] = False
        elif op in ("sp", "rbsp"):
            cand = self.open_tx(writable=True) if rng.random() < 0.95 else list(self.tx)
            if not cand:
                return
            i = rng.choice(cand)
            self.close_cursors_of(i)
            a = self.emit("e2 %s %d" % (op, i))
            if op == "rbsp" and a == "ok" and len(self.keys) <= 6 and self.tx[i]["mode"] != "wo":
                # observe the restored pending writes at once
                for k in self.keys:
                    self.emit("e2 get %d %s" % (i, k))
        elif op in ("commit", "rollback", "drop"):
            cand = self.open_tx() if rng.random() < 0.95 else list(self.tx)
            if not cand:
                return
            i = rng.choice(cand)
            self.close_cursors_of(i)
            a = self.emit("e2 %s %d" % (op, i))
            if op == "drop":
                self.tx.pop(i, None)
            elif op == "rollback" or a == "ok" or a == "err:Closed":
                self.tx[i]["closed"] = True
        elif op in ("rotate", "flush", "flush1", "compactauto"):
            self.emit("e2 " + op)
        elif op == "compact":
            self.emit("e2 compact %d" % rng.randint(0, max(0, self.lc - 1)))
        elif op == "reopen":
            self.emit("e2 reopen")
            self.tx, self.cur = {}, {}

    def finish(self):
        # a fresh observer reads everything, forward and backward
        i = self.next_tx
        self.next_tx += 1
        self.emit("e2 begin %d ro" % i)
        self.emit("e2 scan %d - ff00 f" % i)
        self.emit("e2 scan %d - ff00 b" % i)
        for k in self.keys:
            self.emit("e2 get %d %s" % (i, k))
        return self.lines, self.exp


def run_impl(programs, timeout=1500):
    """programs: list of (lines, exp). Returns list of impl answer lists."""
    shards = C.shard(list(range(len(programs))), C.NCPU)
    scripts = [[l for i in sh for l in programs[i][0]] for sh in shards]
    res = C.run_pairs(scripts, sides=("impl",), timeout=timeout)
    out = [None] * len(programs)
    for sh, r in zip(shards, res):
        lines = r["impl"][0]
        pos = 0
        for i in sh:
            n = len(programs[i][0])
            out[i] = lines[pos:pos + n]
            pos += n
    return out


def first_mismatch(lines, exp, got):
    for j, l in enumerate(lines):
        if l in INFO:
            continue
        g = got[j] if j < len(got) else "<missing>"
        if g != exp[j]:
            return j
    return None


def rerun(lines):
    """run a program on both sides; returns (exp, got)"""
    r = C.run_pairs([lines], sides=("impl", "model"))[0]
    return r["model"][0], r["impl"][0]


def shrink(lines, j, budget=60):
    """delta-debug a failing program: keep `e2 new`/`open`, try dropping lines; the failure is
    'some compared line differs'."""
    cur = lines[:j + 1]
    tries = 0

    def fails(cand):
        exp, got = rerun(cand)
        return first_mismatch(cand, exp, got) is not None

    n = 2
    while len(cur) > 3 and tries < budget:
        chunk = max(1, (len(cur) - 2) // n)
        removed = False
        k = 2
        while k < len(cur) - 1 and tries < budget:
            cand = cur[:k] + cur[k + chunk:]
            if len(cand) < 3 or cand == cur:
                k += chunk
                continue
            tries += 1
            if fails(cand):
                cur = cand
                removed = True
            else:
                k += chunk
        if not removed:
            if chunk == 1:
                break
            n *= 2
    exp, got = rerun(cur)
    m = first_mismatch(cur, exp, got)
    if m is not None:
        cur = cur[:m + 1]
        exp, got = exp[:m + 1], got[:m + 1]
    return cur, exp, got


def replay_text(pid, desc, lines, exp, got):
    out = ["# property=%s" % pid, "# oracle: implementation differs from the specification machine (Spec/Machine.v): " + desc]
    for i, l in enumerate(lines):
        out.append("> " + l)
        out.append("IMPL:  " + (got[i] if i < len(got) else "<missing>"))
        out.append("SPEC:  " + (exp[i] if i < len(exp) else "<missing>"))
    return "\n".join(out) + "\n"


def replay(ctx):
    text = open(ctx["replay"]).read()
    lines = [l[2:] for l in text.splitlines() if l.startswith("> ")]
    if not lines:
        print(text)
        return 1
    exp, got = rerun(lines)
    bad = 0
    for i, l in enumerate(lines):
        print("> " + l)
        g = got[i] if i < len(got) else "<missing>"
        e = exp[i] if i < len(exp) else "<missing>"
        print("IMPL:  " + g)
        print("SPEC:  " + e)
        if g != e and l not in INFO:
            bad += 1
    print("differing lines: %d" % bad)
    return 0


def explore_profiles(ctx, pid, profiles, nontrivial, classify=None, n_quick=60, n_thorough=600, length=(25, 70)):
    """profiles: list of dict(name, opts=[...], weights, keys?, max_tx?) cycled over programs.
    nontrivial(lines, exp) -> bool.  classify(lines, exp, got) -> known-class name or None."""
    rng = C.Rng(ctx["seed"] * 1000003 + sum(ord(c) for c in pid))
    n = n_quick if ctx["tier"] == "quick" else n_thorough
    res = dict(violations=[], known=[], disagreements=[])
    if not ctx["have_model"]:
        res["disagreements"].append("model side unavailable (extraction/driver did not build)")
        res["coverage"] = {"evaluations": 0, "distinct_nontrivial": 0}
        return res
    kf = C.known_findings(pid)
    model = Model()
    programs, meta = [], []
    # corpus first
    cdir = os.path.join(C.VERIF, "corpus", pid)
    if os.path.isdir(cdir):
        for fn in sorted(os.listdir(cdir)):
            lines = [l[2:] for l in open(os.path.join(cdir, fn)).read().splitlines() if l.startswith("> ")]
            if lines:
                exp = [model.ask(l) for l in lines]
                programs.append((lines, exp))
                meta.append(dict(profile="corpus:" + fn))
    opstats = {}
    for i in range(n):
        pf = profiles[i % len(profiles)]
        opts = rng.choice(pf["opts"])
        g = ProgGen(rng, model, opts=opts, weights=pf.get("weights"), keys=pf.get("keys"), max_tx=pf.get("max_tx", 4),
                    values=pf.get("values"), ts_mode=pf.get("ts_mode", False), modes=pf.get("modes"))
        g.kind_weights = pf.get("kind_weights")
        g.start()
        if "prologue" in pf:
            pf["prologue"](g)
        for _ in range(rng.randint(*pf.get("length", length))):
            g.step()
        lines, exp = g.finish()
        programs.append((lines, exp))
        meta.append(dict(profile=pf["name"], opts=opts))
        for k, v in g.stats.items():
            opstats[k] = opstats.get(k, 0) + v
    model.close()
    got = run_impl(programs)
    evals = 0
    distinct = set()
    profiles_hit = {}
    fails = []
    for (lines, exp), g, m in zip(programs, got, meta):
        evals += len(lines)
        profiles_hit[m["profile"]] = profiles_hit.get(m["profile"], 0) + 1
        if nontrivial(lines, exp):
            distinct.add(C.fnv("\n".join(lines).encode()))
        j = first_mismatch(lines, exp, g or [])
        if j is not None:
            fails.append((lines, exp, g or [], j, m))
    # classify / shrink failing programs (bounded work)
    seen_sig = set()
    for (lines, exp, g, j, m) in fails[:12]:
        s_lines, s_exp, s_got = shrink(lines, j, budget=40 if ctx["tier"] == "quick" else 120)
        cls = classify(s_lines, s_exp, s_got) if classify else None
        if cls and cls in kf:
            res["known"].append(kf[cls])
            continue
        sig = (s_lines[-1].split()[1], s_exp[-1][:12] if s_exp else "", s_got[-1][:12] if s_got else "")
        if sig in seen_sig:
            continue
        seen_sig.add(sig)
        desc = "`%s`: implementation answers %s, specification %s (profile %s, options %s)" % (
            s_lines[-1], (s_got[-1] if s_got else "<missing>")[:160], (s_exp[-1] if s_exp else "")[:160], m["profile"], m.get("opts"))
        res["violations"].append((desc, replay_text(pid, desc, s_lines, s_exp, s_got)))
    res["coverage"] = {
        "evaluations": evals, "distinct_nontrivial": len(distinct),
        "programs": len(programs), "disagreements_checked": evals,
        "failing_programs": len(fails), "op_mix": opstats, "profiles": profiles_hit,
        "samples": [" ; ".join(l[3:] for l in programs[-1][0][:40])],
        "exhaustive": False,
    }
    return res
