#!/usr/bin/env python3
"""(Re)insert the E3 block (driver/e3_part.ml) into driver/main.ml: the block goes before the main
loop `let () =`, the dispatch line `| "e3" :: rest -> e3_cmd rest` after the "lk" one. Idempotent."""
import os, re
d = os.path.join(os.path.dirname(os.path.abspath(__file__)), "..", "driver") + os.sep
m = open(d + "main.ml").read()
part = open(d + "e3_part.ml").read()
m = re.sub(r"\(\* ---- E3 BEGIN.*?---- E3 END ---- \*\)\n\n", "", m, flags=re.S)
m = m.replace("let () =\n  try\n    while true do", part + "\nlet () =\n  try\n    while true do", 1)
if '"e3" :: rest -> e3_cmd rest' not in m:
    m = m.replace('            | "lk" :: rest -> lk_cmd rest\n', '            | "lk" :: rest -> lk_cmd rest\n            | "e3" :: rest -> e3_cmd rest\n')
open(d + "main.ml", "w").write(m)
