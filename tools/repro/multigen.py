#!/usr/bin/env python3
"""tools/repro/multigen.py piece | nonlast | vlog | tornfirst | relograce  — run one directed multi-session crash scenario on the real store
(see tools/vlib/multigen.py) and print what happened."""
import os, sys
sys.path.insert(0, os.path.join(os.path.dirname(os.path.abspath(__file__)), ".."))
from vlib import multigen as M

if __name__ == "__main__":
    hit, text = {"piece": M.piece, "nonlast": M.nonlast, "vlog": M.vlog_rotated, "tornfirst": M.torn_first, "vlogheader": M.vlog_header, "vlogtorn": M.vlog_torn_header, "tornheader": M.torn_header_tail, "admission": M.admission_boundary, "repairappend": M.repair_then_append, "relogwindow": M.relog_window, "relograce": M.relog_race}[sys.argv[1]]()
    print(text)
    print("REPRODUCED" if hit else "NOT REPRODUCED")
    sys.exit(1 if hit else 0)
