#!/usr/bin/env python3
"""Insert the cfg-guarded yield-point lines (add-only).  Each spec: (file, anchor text (stripped match),
occurrence (1-based, among non-test part), 'a'fter|'b'efter, call args)."""
import sys, os, re
REPO = sys.argv[1] if len(sys.argv) > 1 else os.environ.get("VERIF_REPO", "/repo")
Y = '#[cfg(surrealkv_verif)]\n{ind}crate::verif::yieldp::yield_point({args});'
SPECS = [
 # ---- commit.rs: CommitQueue::enqueue
 ("src/commit.rs", "let (head, tail) = self.unpack(ptrs);", 1, "a", '"enq.loaded", head as u64, tail as u64'),
 ("src/commit.rs", 'panic!("commit queue overflow - should not be reached");', 1, "b", '"enq.full", head as u64, tail as u64'),
 ("src/commit.rs", "std::hint::spin_loop();", 1, "b", '"enq.spin", head as u64, 0'),
 ("src/commit.rs", "slot.store(batch_ptr as *mut CommitBatch, Ordering::Release);", 1, "a", '"enq.stored", head as u64, 0'),
 ("src/commit.rs", "self.head_tail.fetch_add(1 << DEQUEUE_BITS, Ordering::Release);", 1, "a", '"enq.done", head as u64, 0'),
 # ---- dequeue_applied
 ("src/commit.rs", "let (head, tail) = self.unpack(ptrs);", 2, "a", '"deq.loaded", head as u64, tail as u64'),
 ("src/commit.rs", "let batch_ptr = slot.load(Ordering::Acquire);", 1, "a", '"deq.slot", tail as u64, batch_ptr.is_null() as u64'),
 ("src/commit.rs", "let is_applied = unsafe { (*batch_ptr).is_applied() };", 1, "a", '"deq.checked", tail as u64, is_applied as u64'),
 ("src/commit.rs", "// We now own slot.", 1, "b", '"deq.cas_ok", tail as u64, 0'),
 ("src/commit.rs", "slot.store(std::ptr::null_mut(), Ordering::Release);", 1, "a", '"deq.cleared", tail as u64, 0'),
 ("src/commit.rs", "// CAS failed, retry the whole loop", 1, "a", '"deq.cas_fail", tail as u64, 0'),
 # ---- commit()
 # (since the repair of C04-N1 the body is `async fn commit_checked(&self, mut batch: Batch, sync, start_seq, begin_epoch: Option<u64>)`,
 #  a signature over several lines: the anchor is its last parameter line, the hook goes after the line below it)
 ("src/commit.rs", "begin_epoch: Option<u64>, @+1 || pub(crate) async fn commit(&self, mut batch: Batch, sync: bool, start_seq: u64) -> Result<()> {", 1, "a", '"commit.enter", start_seq, batch.count() as u64', 1),
 ("src/commit.rs", "self.write_stall.check().await?;", 1, "a", '"commit.stall_ok", 0, 0'),
 ("src/commit.rs", "let _permit = self.commit_sem.acquire().await.map_err(|_| Error::PipelineStall)?;", 1, "a", '"commit.sem_acquired", 0, 0'),
 ("src/commit.rs", "let (commit_batch, complete_rx) = CommitBatch::new(batch.count());", 1, "a", '"commit.want_lock", 0, batch.count() as u64'),
 ("src/commit.rs", "let _guard = self.write_mutex.lock();", 1, "a", '"commit.locked", 0, 0'),
 ("src/commit.rs", "self.oracle.check(batch.entries.iter().map(|e| e.key.as_slice()), start_seq)?;", 1, "a", '"commit.checked", 0, 0'),
 ("src/commit.rs", "let seq_num = self.log_seq_num.fetch_add(count, Ordering::SeqCst);", 1, "a", '"commit.seq_allocated", seq_num, count'),
 ("src/commit.rs", "// Stamp the commit_batch & batch.", 1, "b", '"commit.oracle_published", seq_num, count'),
 ("src/commit.rs", "self.pending.enqueue(Arc::clone(&commit_batch));", 1, "a", '"commit.enqueued", seq_num, count'),
 ("src/commit.rs", "// WAL failed AFTER oracle.publish. Roll back the entries", 1, "b", '"commit.wal_failed", seq_num, count'),
 ("src/commit.rs", "commit_batch.set_failure(e); || commit_batch.complete(Err(e.clone()));", 1, "a", '"commit.fail_completed", seq_num, 0'),
 ("src/commit.rs", "commit_batch.mark_applied();", 1, "a", '"commit.marked", seq_num, 1'),
 ("src/commit.rs", "drop(_guard);", 1, "a", '"commit.unlocked", seq_num, 1'),
 ("src/commit.rs", "self.publish();", 1, "a", '"commit.published", seq_num, 1'),
 ("src/commit.rs", "// === END CRITICAL SECTION ===", 1, "a", '"commit.unlocked", allocated_seq, 0'),
 ("src/commit.rs", "let apply_result = self.env.apply(&processed_batch);", 1, "a", '"commit.after_apply", allocated_seq, apply_result.is_err() as u64'),
 ("src/commit.rs", "commit_batch.set_failure(Error::CommitFail(e.to_string())); || commit_batch.complete(Err(err.clone()));", 1, "a", '"commit.fail_completed", allocated_seq, 1'),
 ("src/commit.rs", "commit_batch.mark_applied();", 2, "a", '"commit.marked", allocated_seq, 0'),
 ("src/commit.rs", "self.publish();", 2, "a", '"commit.published", allocated_seq, 0'),
 # ---- publish()
 ("src/commit.rs", "let new_visible = batch.get_seq_num() + batch.count as u64 - 1;", 1, "a", '"pub.deq", new_visible, batch.count as u64'),
 ("src/commit.rs", "let current = self.visible_seq_num.load(Ordering::Acquire);", 1, "a", '"vis.loaded", new_visible, current'),
 ("src/commit.rs", "// Already published by another thread", 1, "b", '"vis.skip", new_visible, current'),
 ("src/commit.rs", "break;", 2, "b", '"vis.cas_ok", new_visible, current'),
 ("src/commit.rs", "// Complete this batch", 1, "b", None),   # placeholder: see below (vis.cas_fail handled by line rule)
 ("src/commit.rs", "None => Ok(()), @+1 || batch.complete(Ok(()));", 1, "a", '"pub.completed", new_visible, 0'),
 ("src/commit.rs", "// No more applied batches, done", 1, "b", '"pub.exit", 0, 0'),
 # ---- stall.rs
 ("src/stall.rs", "let notified = self.stall_cleared.notified();", 1, "a", '"stall.registered", 0, 0'),
 ("src/stall.rs", "let counts = self.provider.get_stall_counts();", 1, "a", '"stall.counted", counts.immutable_memtables as u64, counts.l0_files as u64'),
 ("src/stall.rs", "notified.await;", 1, "b", '"stall.wait", 0, 0'),
 ("src/stall.rs", "self.stall_cleared.notify_waiters();", 1, "a", '"stall.signal", 0, 0'),
 ("src/stall.rs", "self.stall_cleared.notify_waiters();", 2, "a", '"stall.signal", 1, 0'),
 # ---- transaction.rs
 ("src/transaction.rs", "let start_seq_num = core.seq_num();", 1, "a", '"txn.loaded", start_seq_num, 0'),
 ("src/transaction.rs", "let txn_guard = Some(core.active_txn_tracker.register(start_seq_num));", 1, "a", '"txn.registered", start_seq_num, 0'),
 # ---- memtable: one point per inserted entry
 ("src/memtable/mod.rs", "self.insert_into_memtable(&ikey, &val, heights.get(i).copied())?;", 1, "a", '"mem.insert", current_seq_num, batch.count() as u64'),
 # ---- lsm.rs: LsmCommitEnv::apply, Core::close
 ("src/lsm.rs", 'log::debug!("apply: arena full, rotating memtable");', 1, "b", '"apply.arena_full", batch.starting_seq_num, 0'),
 ("src/lsm.rs", "self.core.rotate_memtable()?;", 1, "a", '"apply.rotated", batch.starting_seq_num, 0'),
 ("src/lsm.rs", "// Retry on new memtable - must succeed", 1, "b", '"apply.woke", batch.starting_seq_num, 0'),
 ("src/lsm.rs", 'log::info!("Shutting down LSM tree...");', 1, "b", '"close.start", 0, 0'),
 ("src/lsm.rs", "self.commit_pipeline.shutdown();", 1, "a", '"close.pipe_shutdown", 0, 0'),
 ("src/lsm.rs", 'log::debug!("Background task manager stopped");', 1, "b", '"close.tasks_stopped", 0, 0'),
 ("src/lsm.rs", "// Step 7: Release the database lock", 1, "b", '"close.synced", 0, 0'),
 ("src/lsm.rs", "let final_manifest = self.inner.level_manifest.read()?;", 1, "b", '"close.end", 0, 0'),
 # ---- task.rs
 ("src/task.rs", "notify.notified().await;", 1, "b", '"task.mem.wait", 0, 0'),
 ("src/task.rs", "notify.notified().await;", 1, "a", '"task.mem.woken", 0, 0'),
 ("src/task.rs", 'log::debug!("Memtable flush task starting");', 1, "b", '"task.mem.running", 0, 0'),
 ("src/task.rs", "flush_count += 1;", 1, "b", '"task.mem.flushed", 0, 0'),
 ("src/task.rs", "if !core.has_pending_immutables() {", 1, "a", '"task.mem.nopending", 0, 0'),
 ("src/task.rs", 'log::error!("Memtable compaction task error: {e:?}");', 1, "b", '"task.mem.error", 0, 0'),
 ("src/task.rs", "level_notify.notify_one();", 1, "a", '"task.mem.notified_level", 0, 0'),
 ("src/task.rs", "running.store(false, Ordering::SeqCst);", 1, "a", '"task.mem.idle", 0, 0'),
 ("src/task.rs", "notify.notify_one();", 1, "a", '"task.mem.recheck", 0, 1'),
 ("src/task.rs", "task_handles.lock().unwrap().as_mut().unwrap().push(handle);", 1, "X", None),
 ("src/task.rs", "notify.notified().await;", 2, "b", '"task.level.wait", 0, 0'),
 ("src/task.rs", "notify.notified().await;", 2, "a", '"task.level.woken", 0, 0'),
 ("src/task.rs", 'log::debug!("Level compaction task starting");', 1, "b", '"task.level.running", 0, 0'),
 ("src/task.rs", 'log::error!("Level compaction task error: {e:?}");', 1, "b", '"task.level.error", 0, 0'),
 ("src/task.rs", 'log::debug!("Level compaction completed successfully");', 1, "b", '"task.level.done", 0, 0'),
 ("src/task.rs", "running.store(false, Ordering::SeqCst);", 2, "a", '"task.level.idle", 0, 0'),
 ("src/task.rs", "self.memtable_notify.notify_one();", 1, "a", '"task.wake_mem", 0, 0'),
 ("src/task.rs", "self.level_notify.notify_one();", 1, "a", '"task.wake_level", 0, 0'),
 ("src/task.rs", "self.stop_flag.store(true, Ordering::SeqCst);", 1, "a", '"task.stop.flag", 0, 0'),
 ("src/task.rs", "self.level_notify.notify_one();", 2, "a", '"task.stop.notified", 0, 0'),
 ("src/task.rs", "tokio::time::sleep(tokio::time::Duration::from_millis(50)).await;", 1, "b", '"task.stop.poll", 0, 0'),
 ("src/task.rs", "let task_handles = self.task_handles.lock().unwrap().take().unwrap();", 1, "b", '"task.stop.join", 0, 0'),
]
# loop-exit points of the two spawned tasks and the failed visible CAS need a structural anchor:
# they go after the closing brace of a loop / if; handled by explicit (file, regex of the closing line, nth).
def apply(path, specs):
    lines = open(path).read().split("\n")
    # non-test part only
    try:
        end = next(i for i, l in enumerate(lines) if l.startswith("#[cfg(test)]") and lines[i+1].startswith("mod tests"))
    except StopIteration:
        end = len(lines)
    ins = []  # (index, text)
    for sp in specs:
        anchor, occ, pos, args = sp[1], sp[2], sp[3], sp[4]
        if args is None:
            continue
        alts = [x.strip() for x in anchor.split(" || ")]  # repaired shape first, older shape second
        idxs = []
        for alt in alts:
            off = 0
            if " @+" in alt:  # the statement ends `off` lines below the anchor line
                alt, o = alt.split(" @+")
                off = int(o)
            idxs = [i + off for i, l in enumerate(lines[:end]) if l.strip() == alt.strip()]
            if idxs:
                break
        if len(idxs) < occ:
            if os.environ.get("E3_HOOKS_LENIENT"):
                # a seeded change rewrote the anchor statement: this one yield point is left out (only the interleaving
                # engine needs it; tools/seedapply says so)
                print("hook left out (anchor lost): %s #%d in %s" % (anchor, occ, path))
                continue
            sys.exit("anchor lost: %s #%d in %s" % (anchor, occ, path))
        i = idxs[occ - 1]
        ind = re.match(r"\t*", lines[i]).group(0)
        if len(sp) > 5:
            ind += "\t" * sp[5]
        if pos == "a" and lines[i].rstrip().endswith("{") and len(sp) <= 5:
            ind += "\t"
        text = ind + Y.format(ind=ind, args=args)
        call = "crate::verif::yieldp::yield_point(%s);" % args
        near = lines[i + 1:i + 3] if pos == "a" else lines[max(0, i - 2):i]
        if any(l.strip() == call for l in near):
            continue  # already there (the script is idempotent)
        ins.append((i + 1 if pos == "a" else i, text))
    return lines, ins, end
by_file = {}
for sp in SPECS:
    by_file.setdefault(sp[0], []).append(sp)
extra = {
 # after the closing brace of: the CAS `if` of the visible loop; the two task loops
 "src/commit.rs": [("vis.cas_fail", "new_visible, current")],
 "src/task.rs": [("task.mem.exit", "0, 0"), ("task.level.exit", "0, 0")],
}
for f, specs in by_file.items():
    path = os.path.join(REPO, f)
    lines, ins, end = apply(path, specs)
    if f == "src/commit.rs":
        # the `{ break; }` block that follows `.is_ok()` inside fn publish
        k = next(i for i, l in enumerate(lines) if l.strip() == "fn publish(&self) {")
        j = next(i for i in range(k, end) if lines[i].strip() == ".is_ok()")
        assert lines[j+1].strip() == "{"
        ind = re.match(r"\t*", lines[j+1]).group(0)
        c = next(i for i in range(j + 2, end) if lines[i] == ind + "}")
        assert any(lines[i].strip() == "break;" for i in range(j + 2, c))
        if "vis.cas_fail" not in "".join(lines[c + 1:c + 3]):
            ins.append((c + 1, ind + Y.format(ind=ind, args='"vis.cas_fail", new_visible, current')))
    if f == "src/task.rs":
        # closing `}` of the outer `loop {` of each spawned task = the line before `});` that precedes the push(handle)
        pushes = [i for i, l in enumerate(lines[:end]) if l.strip() == "task_handles.lock().unwrap().as_mut().unwrap().push(handle);"]
        for n, i in enumerate(pushes):
            assert lines[i-1].strip() == "});"
            if ".exit" in lines[i-2]:
                continue  # already there
            assert lines[i-2].strip() == "}"
            ind = re.match(r"\t*", lines[i-2]).group(0)
            if True:
                ins.append((i - 1, ind + Y.format(ind=ind, args='"task.%s.exit", 0, 0' % ("mem" if n == 0 else "level"))))
    for i, text in sorted(ins, key=lambda x: -x[0]):
        lines[i:i] = text.split("\n")
    open(path, "w").write("\n".join(lines))
    print(f, len(ins), "points")
