(* design-phase exploration: Transaction write-set replace-or-push + savepoints; rollback_exact statement *)
From Coq Require Import List Arith Bool Lia.
Import ListNotations.
Record entry := { ek : nat; ev : nat (* 0 = delete *); esp : nat; eseq : nat; ets : nat (* 0 = commit time *) }.
Record st := { ws : list entry (* all entries, grouped by key implicitly; per-key order = list order *); sps : nat; wseq : nat }.
Inductive op := Set_ (k v ts : nat) | Save | Roll.
Definition last_of (k : nat) (l : list entry) : option entry := last (map Some (filter (fun e => Nat.eqb (ek e) k) l)) None.
(* replace the last entry of key k by e *)
Fixpoint replace_last (k : nat) (e : entry) (l : list entry) : list entry :=
  match l with [] => []
  | x :: r => if Nat.eqb (ek x) k && negb (existsb (fun y => Nat.eqb (ek y) k) r) then e :: r else x :: replace_last k e r end.
Definition step (s : st) (o : op) : st :=
  match o with
  | Set_ k v ts =>
    let q := S (wseq s) in
    let e := {| ek := k; ev := v; esp := sps s; eseq := q; ets := ts |} in
    match last_of k (ws s) with
    | Some l => if Nat.eqb (esp l) (sps s)
                then if negb (Nat.eqb (ets l) 0) && negb (Nat.eqb ts 0) && negb (Nat.eqb (ets l) ts)
                     then {| ws := ws s ++ [e]; sps := sps s; wseq := q |}
                     else {| ws := replace_last k e (ws s); sps := sps s; wseq := q |}
                else {| ws := ws s ++ [e]; sps := sps s; wseq := q |}
    | None => {| ws := ws s ++ [e]; sps := sps s; wseq := q |}
    end
  | Save => {| ws := ws s; sps := S (sps s); wseq := wseq s |}
  | Roll => match sps s with 0 => s
            | S n => {| ws := filter (fun e => negb (Nat.eqb (esp e) (sps s))) (ws s); sps := n; wseq := wseq s |} end
  end.
(* observables: commit batch (entries sorted by eseq -> (k,v,ts)), and get per key *)
Fixpoint insert_sorted (e : entry) (l : list entry) := match l with [] => [e] | x :: r => if eseq e <=? eseq x then e :: l else x :: insert_sorted e r end.
Definition batch (s : st) : list (nat * nat * nat) := map (fun e => (ek e, ev e, ets e)) (fold_right insert_sorted [] (ws s)).
Definition get (s : st) (k : nat) : option nat := match last_of k (ws s) with Some e => Some (ev e) | None => None end.
Definition obs (s : st) := (batch s, get s 1, get s 2, sps s).
Definition run (s : st) (p : list op) := fold_left step p s.
Definition init := {| ws := []; sps := 0; wseq := 0 |}.
(* balanced programs: never Roll below their own starting depth *)
Fixpoint balanced (d : nat) (p : list op) : bool :=
  match p with [] => Nat.eqb d 0 | Save :: r => balanced (S d) r | Roll :: r => match d with 0 => false | S n => balanced n r end | _ :: r => balanced d r end.
Definition ops := [Set_ 1 1 0; Set_ 1 2 0; Set_ 1 0 0; Set_ 1 3 5; Set_ 1 4 6; Set_ 2 1 0; Save; Roll].
Fixpoint progs (n : nat) : list (list op) := match n with O => [[]] | S m => flat_map (fun p => map (fun o => o :: p) ops) (progs m) end.
Definition upto (n : nat) := flat_map progs (seq 0 (S n)).
Definition eq3 (a b : nat*nat*nat) := let '(x,y,z) := a in let '(u,v,w) := b in Nat.eqb x u && Nat.eqb y v && Nat.eqb z w.
Fixpoint eql (a b : list (nat*nat*nat)) := match a, b with [], [] => true | x :: r, y :: q => eq3 x y && eql r q | _, _ => false end.
Definition eqo (a b : option nat) := match a, b with Some x, Some y => Nat.eqb x y | None, None => true | _, _ => false end.
Definition obs_eq (a b : st) := eql (batch a) (batch b) && eqo (get a 1) (get b 1) && eqo (get a 2) (get b 2) && Nat.eqb (sps a) (sps b).
Definition cex := flat_map (fun q => let s0 := run init q in
                   flat_map (fun p => if balanced 0 p then
                                        if obs_eq (run s0 (Save :: p ++ [Roll])) s0 then [] else [(q, p)]
                                      else []) (upto 3)) (upto 2).
Eval vm_compute in length cex.
Eval vm_compute in firstn 6 cex.
