(* design-phase exploration: transcription of CompactionIterator::process_accumulated_versions
   and exhaustive small-domain evaluation of the candidate theorem statements *)
From Coq Require Import List NArith Bool Lia.
Import ListNotations.
Open Scope N_scope.

Inductive kind := KDel | KSoft | KSet | KRep.
Definition is_hard k := match k with KDel => true | _ => false end.
Definition is_tomb k := match k with KDel | KSoft => true | _ => false end.
Definition is_rep k := match k with KRep => true | _ => false end.

Record ver := { vseq : N; kd : kind; ts : N }.

Inductive vis := Bounded (s : N) | NoSnap | Newer.
Fixpoint earliest (snaps : list N) (q : N) : option N :=
  match snaps with [] => None | s :: r => if q <=? s then Some s else earliest r q end.
Definition visibility (snaps : list N) (q : N) : vis :=
  match snaps with [] => NoSnap | _ => match earliest snaps q with Some s => Bounded s | None => Newer end end.
Definition same_boundary (a b : vis) : bool :=
  match a, b with Bounded x, Bounded y => x =? y | Newer, Newer => true | NoSnap, NoSnap => true | _, _ => false end.

Section CK.
Variables (bottom versioning : bool) (retention now : N) (snaps : list N).

(* vs sorted by seq descending, distinct *)
Definition compact_key (vs : list ver) : list ver :=
  let latest_del_bottom := match vs with v :: _ => bottom && is_hard (kd v) | [] => false end in
  let has_rep := existsb (fun v => is_rep (kd v)) vs in
  let fix go (i : nat) (newer : option vis) (l : list ver) : list ver :=
    match l with
    | [] => []
    | v :: r =>
      let is_latest := Nat.eqb i 0 in
      let cur := visibility snaps (vseq v) in
      let superseded :=
        match newer with
        | Some nv =>
          let allows := match cur with NoSnap => negb versioning | _ => true end in
          allows && negb is_latest && same_boundary nv cur
        | None => false end in
      let required := negb superseded && match cur with Bounded _ => true | _ => false end in
      let hard := is_hard (kd v) in let rep := is_rep (kd v) in
      let stale :=
        if superseded then true
        else if latest_del_bottom then true
        else if required then false
        else if is_latest && negb hard && negb rep then false
        else if is_latest && hard && bottom then true
        else if is_latest && hard && negb bottom then false
        else if is_latest && rep then false
        else if hard then true
        else if has_rep && negb rep then true
        else if negb versioning then true
        else if 0 <? retention then (retention <? (now - ts v)) else false in
      let output :=
        if superseded then false
        else if latest_del_bottom then false
        else if stale then false
        else if versioning || required then true
        else is_latest in
      (if output then [v] else []) ++ go (S i) (Some cur) r
    end in
  go 0%nat None vs.
End CK.

(* spec-side observations on a version list (newest first) *)
Definition visible_at (vs : list ver) (s : N) : option ver := find (fun v => vseq v <=? s) vs.
(* what a reader at horizon s observes through get: Some seq of a live version, or None *)
Definition obs_get (vs : list ver) (s : N) : option N :=
  match visible_at vs s with Some v => if is_tomb (kd v) then None else Some (vseq v) | None => None end.
(* non-bottom: the tombstone itself must survive as the visible entry (it masks deeper levels) *)
Definition obs_mask (vs : list ver) (s : N) : option (N * bool) :=
  match visible_at vs s with Some v => Some (vseq v, is_tomb (kd v)) | None => None end.

(* history as the spec defines it at horizon s (unlimited retention): versions newer than newest barrier *)
Fixpoint hist_from (vs : list ver) : list ver :=
  match vs with
  | [] => []
  | v :: r => if is_hard (kd v) then [] else if is_rep (kd v) then [v] else v :: hist_from r
  end.
Definition spec_hist (vs : list ver) (s : N) : list N :=
  let vis := filter (fun v => vseq v <=? s) vs in
  match vis with
  | v :: _ => if is_hard (kd v) then [] else map vseq (hist_from vis)
  | [] => [] end.

(* enumerate: all kind lists of length n with seqs n..1 (descending) *)
Definition kinds := [KDel; KSoft; KSet; KRep].
Fixpoint all_kinds (n : nat) : list (list kind) :=
  match n with O => [[]] | S m => flat_map (fun l => map (fun k => k :: l) kinds) (all_kinds m) end.
Fixpoint number (n : N) (l : list kind) : list ver :=
  match l with [] => [] | k :: r => {| vseq := n; kd := k; ts := n |} :: number (n - 1) r end.
Definition all_vs (n : nat) : list (list ver) := map (number (N.of_nat n)) (all_kinds n).
Fixpoint sublists {A} (l : list A) : list (list A) :=
  match l with [] => [[]] | x :: r => let s := sublists r in s ++ map (cons x) s end.
Definition all_snaps (n : nat) : list (list N) := sublists (map N.of_nat (List.seq 0 (S n))).  (* horizons 0..n *)

Definition eqo (a b : option N) := match a, b with Some x, Some y => x =? y | None, None => true | _, _ => false end.
Definition eqm (a b : option (N*bool)) := match a, b with Some (x,t), Some (y,u) => (x =? y) && Bool.eqb t u | None, None => true | _, _ => false end.
Fixpoint eql (a b : list N) := match a, b with [], [] => true | x :: r, y :: q => (x =? y) && eql r q | _, _ => false end.

(* C01/C06 candidate: for every registered snapshot s and for the latest horizon, get is preserved;
   non-bottom additionally the masking entry is preserved *)
Definition view_ok (bottom versioning : bool) (snaps : list N) (vs : list ver) : bool :=
  let out := compact_key bottom versioning 0 0 snaps vs in
  let top := match vs with v :: _ => vseq v | [] => 0 end in
  forallb (fun s => eqo (obs_get out s) (obs_get vs s) &&
                    (bottom || eqm (obs_mask out s) (obs_mask vs s))) (top :: snaps).

Definition cex_view (n : nat) (bottom versioning : bool) :=
  flat_map (fun vs => flat_map (fun sn => if view_ok bottom versioning sn vs then [] else [(vs, sn)]) (all_snaps n)) (all_vs n).

(* C10 candidate (unlimited retention): history at latest horizon unchanged by compaction *)
Definition hist_ok (bottom : bool) (snaps : list N) (vs : list ver) : bool :=
  let out := compact_key bottom true 0 0 snaps vs in
  let top := match vs with v :: _ => vseq v | [] => 0 end in
  forallb (fun s => eql (spec_hist out s) (spec_hist vs s)) (top :: snaps).
Definition cex_hist (n : nat) (bottom : bool) :=
  flat_map (fun vs => flat_map (fun sn => if hist_ok bottom sn vs then [] else [(vs, sn)]) (all_snaps n)) (all_vs n).

Definition show (c : list ver * list N) := (map (fun v => (vseq v, kd v)) (fst c), snd c).
Eval vm_compute in (length (cex_view 3 true false), length (cex_view 3 false false), length (cex_view 3 true true), length (cex_view 3 false true)).
Eval vm_compute in map show (firstn 6 (cex_view 2 true false)).
Eval vm_compute in map show (firstn 6 (cex_view 3 false false)).
Eval vm_compute in (length (cex_hist 3 true), length (cex_hist 3 false)).
Eval vm_compute in map show (firstn 12 (cex_hist 2 false)).
Eval vm_compute in map show (firstn 12 (cex_hist 3 false)).

(* ---- classification with no snapshots, versioning on, unlimited retention ---- *)
Definition hist_ok0 (bottom : bool) (vs : list ver) : bool := hist_ok bottom [] vs.
(* F14: a non-latest hard delete that has something older below it *)
Fixpoint f14 (first : bool) (vs : list ver) : bool :=
  match vs with [] => false | v :: r => (negb first && is_hard (kd v) && negb (match r with [] => true | _ => false end)) || f14 false r end.
(* F15: a Replace that is not the latest and has a non-latest, non-replace, non-hard version above it *)
Fixpoint f15 (above_nonlatest_plain : bool) (i : nat) (vs : list ver) : bool :=
  match vs with [] => false
  | v :: r => (is_rep (kd v) && above_nonlatest_plain)
              || f15 (above_nonlatest_plain || (negb (Nat.eqb i 0) && negb (is_rep (kd v)) && negb (is_hard (kd v)))) (S i) r end.
Definition classify (bottom : bool) (n : nat) :=
  let bad := filter (fun vs => negb (hist_ok0 bottom vs)) (all_vs n) in
  (length bad,
   length (filter (fun vs => f14 true vs) bad),
   length (filter (fun vs => f15 false 0 vs) bad),
   filter (fun vs => negb (f14 true vs) && negb (f15 false 0 vs)) bad).
Eval vm_compute in let '(a,b,c,d) := classify false 4 in (a,b,c, map (fun vs => map (fun v => (vseq v, kd v)) vs) (firstn 10 d)).
Eval vm_compute in let '(a,b,c,d) := classify true 4 in (a,b,c, map (fun vs => map (fun v => (vseq v, kd v)) vs) (firstn 10 d)).
(* are the classes sound, i.e. is every f14/f15 input really a counterexample? *)
Eval vm_compute in length (filter (fun vs => (f14 true vs || f15 false 0 vs) && hist_ok0 false vs) (all_vs 4)).
(* view (get) with versioning on and snapshots: n = 4 *)
Eval vm_compute in (length (cex_view 4 false true), length (cex_view 4 false false)).
(* bottom view counterexamples all in the F3 class? F3: latest hard & exists snapshot s < top with obs_get vs s <> None *)
Definition f3 (vs : list ver) (sn : list N) : bool :=
  match vs with v :: _ => is_hard (kd v) && existsb (fun s => (s <? vseq v) && match obs_get vs s with Some _ => true | None => false end) sn | [] => false end.
Eval vm_compute in (length (cex_view 4 true false), length (filter (fun c => negb (f3 (fst c) (snd c))) (cex_view 4 true false)),
                    length (filter (fun c => negb (f3 (fst c) (snd c))) (cex_view 4 true true))).
