(* one-off validation of overlay_refines_stmt on small domains (not part of the project build) *)
From Coq Require Import List NArith Arith Bool.
From SKV Require Import Base.Lex Spec.Cursor Txn.RangeIter Txn.RangeIterSpec.
Import ListNotations.
Local Open Scope N_scope.

Fixpoint sublists {A} (l : list A) : list (list A) := match l with [] => [[]] | x :: r => let s := sublists r in s ++ map (cons x) s end.
Definition kb (n : N) : bytes := [n].
Definition allS (ks : list N) : list (list (bytes*bytes)) := sublists (map (fun k => (kb k, [k; 0])) ks).
Fixpoint wsets (ks : list N) : list (list (bytes * option bytes)) :=
  match ks with [] => [[]] | k :: r => let s := wsets r in s ++ map (cons (kb k, Some [k;1])) s ++ map (cons (kb k, None)) s end.
Definition ops (ts : list N) : list cop := [CFirst; CLast; CNext; CPrev] ++ map (fun t => CSeek (kb t)) ts.
(* DFS over all programs of length <= n: number of (program prefix) nodes visited, number of failing nodes;
   cond = respect the side condition *)
Section D.
Variable cond : bool. Variable os : list cop. Variable sn : list (bytes*bytes). Variable ws : list (bytes * option bytes).
Fixpoint dfs (n : nat) (st : ri_state) (fresh : bool) (pos : option nat) : (N * N) :=
  match n with O => (0, 0) | S m =>
    fold_left (fun acc o =>
      if negb cond || admissible fresh pos o then
        let st' := ri_step sn ws st o in let pos' := cstep (merged_live sn ws) fresh pos o in
        let ok := obs_eqb (ri_get sn ws st') (cget (merged_live sn ws) pos') in
        let '(a, b) := dfs m st' false pos' in
        (fst acc + 1 + a, snd acc + (if ok then 0 else 1) + b)
      else acc) os (0, 0)
  end.
End D.
Definition sweep (cond : bool) (ks ts : list N) (n : nat) : N * N :=
  fold_left (fun acc Sx => fold_left (fun acc Wx => let '(a, b) := dfs cond (ops ts) Sx Wx n ri_init true None in (fst acc + a, snd acc + b)) (wsets ks) acc) (allS ks) (0, 0).
Time Eval vm_compute in sweep false [1;3;5] [0;3;4] 5.
Time Eval vm_compute in sweep false [1;3;5;7] [0;4;5;8] 4.
(* checker sanity: a wrong specification list (write-set tombstones ignored) must produce failures *)
Section D2.
Variable os : list cop. Variable sn : list (bytes*bytes). Variable ws : list (bytes * option bytes).
Let items := merged_live sn (filter (fun e => match snd e with Some _ => true | None => false end) ws).
Fixpoint dfs2 (n : nat) (st : ri_state) (fresh : bool) (pos : option nat) : (N * N) :=
  match n with O => (0, 0) | S m =>
    fold_left (fun acc o =>
        let st' := ri_step sn ws st o in let pos' := cstep items fresh pos o in
        let ok := obs_eqb (ri_get sn ws st') (cget items pos') in
        let '(a, b) := dfs2 m st' false pos' in
        (fst acc + 1 + a, snd acc + (if ok then 0 else 1) + b)) os (0, 0)
  end.
End D2.
Definition sweep2 (ks ts : list N) (n : nat) : N * N :=
  fold_left (fun acc Sx => fold_left (fun acc Wx => let '(a, b) := dfs2 (ops ts) Sx Wx n ri_init true None in (fst acc + a, snd acc + b)) (wsets ks) acc) (allS ks) (0, 0).
Time Eval vm_compute in sweep2 [1;3;5] [0;3;4] 3.
