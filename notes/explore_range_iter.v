(* design-phase exploration: TransactionRangeIterator overlay logic vs spec cursor *)
From Coq Require Import List Arith Bool Lia.
Import ListNotations.

(* snapshot side: sorted distinct live keys; cursor = option index; once invalid stays invalid *)
Definition scur := option nat.
Definition s_valid (c : scur) := match c with Some _ => true | None => false end.
Definition s_key (l : list nat) (c : scur) := match c with Some i => nth i l 0 | None => 0 end.
Definition s_first (l : list nat) : scur := match l with [] => None | _ => Some 0 end.
Definition s_last (l : list nat) : scur := match l with [] => None | _ => Some (length l - 1) end.
Fixpoint find_ge (l : list nat) (t : nat) (i : nat) : scur :=
  match l with [] => None | x :: r => if t <=? x then Some i else find_ge r t (S i) end.
Definition s_seek (l : list nat) (t : nat) : scur := find_ge l t 0.
Definition s_next (l : list nat) (c : scur) : scur :=
  match c with Some i => if S i <? length l then Some (S i) else None | None => None end.
Definition s_prev (c : scur) : scur := match c with Some (S i) => Some i | _ => None end.

(* write-set: sorted distinct keys with tombstone flag *)
Definition wse := (nat * bool)%type.
Inductive src := SSnap | SWs | SNone.
Inductive dir := Fwd | Bwd.
Record st := { sc : scur; wp : option nat; keq : bool; cur : src; d : dir; init : bool }.

Section M.
Variable fixed : bool. Variable SN : list nat. Variable W : list wse.
Definition wkey (i : nat) := fst (nth i W (0,false)).
Definition wtomb (i : nat) := snd (nth i W (0,false)).
Definition adv_ws (dd : dir) (p : option nat) : option nat :=
  match p with None => None
  | Some i => match dd with Fwd => if S i <? length W then Some (S i) else None
                         | Bwd => match i with 0 => None | S j => Some j end end end.
Definition seek_ws_first : option nat := match W with [] => None | _ => Some 0 end.
Definition seek_ws_last : option nat := match W with [] => None | _ => Some (length W - 1) end.
Fixpoint wfind (l : list wse) (t i : nat) : option nat :=
  match l with [] => None | (k,_) :: r => if t <=? k then Some i else wfind r t (S i) end.

(* position_to_min / position_to_max with fuel *)
Fixpoint pos_min (fuel : nat) (c : scur) (p : option nat) : scur * option nat * bool * src :=
  match fuel with O => (c, p, false, SNone) | S f =>
  match s_valid c, p with
  | false, None => (c, p, false, SNone)
  | true, None => (c, p, false, SSnap)
  | false, Some i => if wtomb i then pos_min f c (adv_ws Fwd p) else (c, p, false, SWs)
  | true, Some i =>
    match Nat.compare (s_key SN c) (wkey i) with
    | Lt => (c, p, false, SSnap)
    | Gt => if wtomb i then pos_min f c (adv_ws Fwd p) else (c, p, false, SWs)
    | Eq => if wtomb i then pos_min f (s_next SN c) (adv_ws Fwd p) else (c, p, true, SWs)
    end
  end end.
Fixpoint pos_max (fuel : nat) (c : scur) (p : option nat) : scur * option nat * bool * src :=
  match fuel with O => (c, p, false, SNone) | S f =>
  match s_valid c, p with
  | false, None => (c, p, false, SNone)
  | true, None => (c, p, false, SSnap)
  | false, Some i => if wtomb i then pos_max f c (adv_ws Bwd p) else (c, p, false, SWs)
  | true, Some i =>
    match Nat.compare (s_key SN c) (wkey i) with
    | Gt => (c, p, false, SSnap)
    | Lt => if wtomb i then pos_max f c (adv_ws Bwd p) else (c, p, false, SWs)
    | Eq => if wtomb i then pos_max f (s_prev c) (adv_ws Bwd p) else (c, p, true, SWs)
    end
  end end.
Definition FUEL := 40.
Definition mk (r : scur * option nat * bool * src) (dd : dir) : st :=
  let '(c,p,e,s) := r in {| sc := c; wp := p; keq := e; cur := s; d := dd; init := true |}.

Inductive op := OFirst | OLast | OSeek (t : nat) | ONext | OPrev.
Definition is_src (a b : src) := match a, b with SSnap, SSnap | SWs, SWs | SNone, SNone => true | _, _ => false end.

Definition do_first := mk (pos_min FUEL (s_first SN) seek_ws_first) Fwd.
Definition do_last := mk (pos_max FUEL (s_last SN) seek_ws_last) Bwd.
Definition step (x : st) (o : op) : st :=
  match o with
  | OFirst => do_first
  | OLast => do_last
  | OSeek t => mk (pos_min FUEL (s_seek SN t) (wfind W t 0)) Fwd
  | ONext =>
    if negb (init x) then do_first else
    (* direction change *)
    let '(c, p, e) :=
      match d x with
      | Fwd => (sc x, wp x, keq x)
      | Bwd =>
        let '(c1, p1) :=
          if fixed then
            (if is_src (cur x) SSnap
             then (sc x, match wp x with Some _ => adv_ws Fwd (wp x) | None => seek_ws_first end)
             else (if s_valid (sc x) then s_next SN (sc x) else s_first SN, wp x))
          else
          if negb (s_valid (sc x)) || negb (match wp x with Some _ => true | None => false end)
          then (sc x, seek_ws_first)
          else if is_src (cur x) SSnap then (sc x, adv_ws Fwd (wp x))
          else (s_next SN (sc x), wp x) in
        let e1 := match c1, p1 with Some _, Some i => Nat.eqb (s_key SN c1) (wkey i) | _, _ => false end in
        (c1, p1, e1)
      end in
    if e then mk (pos_min FUEL (s_next SN c) (adv_ws Fwd p)) Fwd
    else match cur x with
         | SSnap => mk (pos_min FUEL (s_next SN c) p) Fwd
         | SWs => mk (pos_min FUEL c (adv_ws Fwd p)) Fwd
         | SNone => {| sc := c; wp := p; keq := false; cur := SNone; d := Fwd; init := true |}
         end
  | OPrev =>
    if negb (init x) then do_last else
    let '(c, p, e) :=
      match d x with
      | Bwd => (sc x, wp x, keq x)
      | Fwd =>
        let '(c1, p1) :=
          if fixed then
            (if is_src (cur x) SSnap
             then (sc x, match wp x with Some _ => adv_ws Bwd (wp x) | None => seek_ws_last end)
             else (if s_valid (sc x) then s_prev (sc x) else s_last SN, wp x))
          else
          if negb (s_valid (sc x)) || negb (match wp x with Some _ => true | None => false end)
          then (sc x, seek_ws_last)
          else if is_src (cur x) SSnap then (sc x, adv_ws Bwd (wp x))
          else (s_prev (sc x), wp x) in
        let e1 := match c1, p1 with Some _, Some i => Nat.eqb (s_key SN c1) (wkey i) | _, _ => false end in
        (c1, p1, e1)
      end in
    if e then mk (pos_max FUEL (s_prev c) (adv_ws Bwd p)) Bwd
    else match cur x with
         | SSnap => mk (pos_max FUEL (s_prev c) p) Bwd
         | SWs => mk (pos_max FUEL c (adv_ws Bwd p)) Bwd
         | SNone => {| sc := c; wp := p; keq := false; cur := SNone; d := Bwd; init := true |}
         end
  end.
Definition out (x : st) : option nat :=
  match cur x with SSnap => Some (s_key SN (sc x)) | SWs => match wp x with Some i => Some (wkey i) | None => None end | SNone => None end.

(* spec: sorted live keys *)
Definition live : list nat :=
  filter (fun k => (existsb (Nat.eqb k) SN && negb (existsb (fun w => Nat.eqb (fst w) k) W))
                   || existsb (fun w => Nat.eqb (fst w) k && negb (snd w)) W) (seq 0 8).
Definition spec_step (c : option nat * bool) (o : op) : option nat * bool :=   (* (index, initialized) *)
  let L := live in
  match o with
  | OFirst => (match L with [] => None | _ => Some 0 end, true)
  | OLast => (match L with [] => None | _ => Some (length L - 1) end, true)
  | OSeek t => (find_ge L t 0, true)
  | ONext => if negb (snd c) then (match L with [] => None | _ => Some 0 end, true)
             else (match fst c with Some i => if S i <? length L then Some (S i) else None | None => None end, true)
  | OPrev => if negb (snd c) then (match L with [] => None | _ => Some (length L - 1) end, true)
             else (match fst c with Some (S i) => Some i | _ => None end, true)
  end.
Definition spec_out (c : option nat * bool) := match fst c with Some i => Some (nth i live 0) | None => None end.
End M.

Definition eqo (a b : option nat) := match a, b with Some x, Some y => Nat.eqb x y | None, None => true | _, _ => false end.
(* run a program; stop (accept) as soon as a non-seek op is issued on an invalid initialized cursor (outside the quantifier) *)
Fixpoint run (fx : bool) (S : list nat) (W : list wse) (x : st) (c : option nat * bool) (p : list op) : bool :=
  match p with [] => true
  | o :: r =>
    let nonseek := match o with ONext | OPrev => true | _ => false end in
    if nonseek && snd c && negb (match fst c with Some _ => true | None => false end) then true
    else let x' := step fx S W x o in let c' := spec_step S W c o in
         eqo (out S W x') (spec_out S W c') && run fx S W x' c' r
  end.
Definition init_st : st := {| sc := None; wp := None; keq := false; cur := SNone; d := Fwd; init := false |}.

Fixpoint sublists {A} (l : list A) : list (list A) := match l with [] => [[]] | x :: r => let s := sublists r in s ++ map (cons x) s end.
Definition keys := [1;3;5].
Definition allS := sublists keys.
Fixpoint wsets (ks : list nat) : list (list wse) :=
  match ks with [] => [[]] | k :: r => let s := wsets r in s ++ map (cons (k,false)) s ++ map (cons (k,true)) s end.
Definition allW := wsets [1;3;5].
Definition ops := [OFirst; OLast; OSeek 0; OSeek 3; OSeek 4; ONext; OPrev].
Fixpoint progs (n : nat) : list (list op) := match n with O => [[]] | S m => flat_map (fun p => map (fun o => o :: p) ops) (progs m) end.
Definition cex (n : nat) := flat_map (fun Sx => flat_map (fun Wx => flat_map (fun p => if run false Sx Wx init_st (None,false) p then [] else [(Sx,Wx,p)]) (progs n)) allW) allS.
Eval vm_compute in (length (cex 2), length (cex 3)).
Eval vm_compute in firstn 8 (cex 3).
Fixpoint progs_of (ops : list op) (n : nat) : list (list op) := match n with O => [[]] | S m => flat_map (fun p => map (fun o => o :: p) ops) (progs_of ops m) end.
Definition cex_of ops (n : nat) := flat_map (fun Sx => flat_map (fun Wx => flat_map (fun p => if run false Sx Wx init_st (None,false) p then [] else [(Sx,Wx,p)]) (progs_of ops n)) allW) allS.

(* single reversal where BOTH sides are valid at the moment of reversal: filter counterexamples whose every reversal happens with both sides valid *)

Definition cexf (n : nat) := flat_map (fun Sx => flat_map (fun Wx => flat_map (fun p => if run true Sx Wx init_st (None,false) p then [] else [(Sx,Wx,p)]) (progs n)) allW) allS.
Eval vm_compute in (length (cexf 2), length (cexf 3), length (cexf 4)).
Eval vm_compute in firstn 5 (cexf 4).
