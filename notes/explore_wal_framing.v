(* design-phase exploration: WAL writer/reader transcription with a small block size; statement checks *)
From Coq Require Import List Arith Bool Lia.
Import ListNotations.

Definition B := 16. Definition H := 7.
(* toy crc: position-weighted sum, 4 bytes big-endian-ish; only equality matters here *)
Fixpoint wsum (l : list nat) (i : nat) : nat := match l with [] => 0 | x :: r => (x + 1) * (i + 1) + wsum r (S i) end.
Definition crc (ty : nat) (d : list nat) : list nat := let s := wsum (ty :: d) 0 in [s / 251 / 251 mod 251; s / 251 mod 251; s mod 251; length d mod 251].
Definition TFull := 1. Definition TFirst := 2. Definition TMiddle := 3. Definition TLast := 4.

(* ---- writer ---- *)
Fixpoint emit (fuel : nat) (off : nat) (p : list nat) (b : bool) : list nat * nat :=
  match fuel with O => ([], off) | S f =>
    let '(pad, off1) := if B - off <? H then (repeat 0 (B - off), 0) else ([], off) in
    let avail := B - off1 - H in
    let n := Nat.min (length p) avail in
    let frag := firstn n p in let rest := skipn n p in
    let is_end := Nat.eqb n (length p) in
    let ty := if b && is_end then TFull else if b then TFirst else if is_end then TLast else TMiddle in
    let rec := crc ty frag ++ [n / 256; n mod 256; ty] ++ frag in
    if is_end then (pad ++ rec, off1 + H + n)
    else let '(more, off2) := emit f (off1 + H + n) rest false in (pad ++ rec ++ more, off2)
  end.
Definition write_record (off : nat) (p : list nat) := emit 50 off p true.
Fixpoint write_all (off : nat) (ps : list (list nat)) : list nat * nat :=
  match ps with [] => ([], off) | p :: r => let '(a, o1) := write_record off p in let '(b, o2) := write_all o1 r in (a ++ b, o2) end.

(* ---- reader ---- *)
Inductive tail := Eof | Corrupt (why : nat).
(* state: remaining file (after current buffer), buffer, buffer_offset, eof flag *)
Record rd := { file : list nat; buf : list nat; bo : nat; eof : bool }.
Definition remaining (r : rd) := length (buf r) - bo r.
Definition read_more (r : rd) : option rd :=
  if eof r then None else
  match file r with
  | [] => None   (* Ok(0): eof, buffer cleared *)
  | _ => let blk := firstn B (file r) in
         Some {| file := skipn B (file r); buf := blk; bo := 0; eof := length blk <? B |}
  end.
Fixpoint all_zero (l : list nat) := match l with [] => true | x :: r => Nat.eqb x 0 && all_zero r end.
Fixpoint beq_l (a b : list nat) := match a, b with [], [] => true | x :: r, y :: q => Nat.eqb x y && beq_l r q | _, _ => false end.
(* next record: returns (payload, new state) or tail *)
Fixpoint next (fuel : nat) (r : rd) (acc : list nat) (idx : nat) : (list nat * rd) + (tail * rd) :=
  match fuel with O => inr (Corrupt 99, r) | S f =>
    if remaining r <? H then
      match read_more r with
      | None => inr (Eof, {| file := []; buf := []; bo := 0; eof := true |})
      | Some r1 => next f r1 acc idx end
    else
      let h := firstn H (skipn (bo r) (buf r)) in
      let c := firstn 4 h in let len := nth 4 h 0 * 256 + nth 5 h 0 in let ty := nth 6 h 0 in
      let r1 := {| file := file r; buf := buf r; bo := bo r + H; eof := eof r |} in
      if negb ((ty <=? 4) || Nat.eqb ty 9) then inr (Corrupt 1, r1) else
      if Nat.eqb ty 0 then
        if all_zero (skipn (bo r1) (buf r1)) then next f {| file := file r; buf := buf r; bo := length (buf r); eof := eof r |} acc idx
        else inr (Corrupt 2, r1)
      else if Nat.eqb ty 9 then inr (Corrupt 9, r1)  (* compression records not used here *)
      else
        let okty := if (Nat.eqb ty TFull || Nat.eqb ty TFirst) then Nat.eqb idx 0 else negb (Nat.eqb idx 0) in
        if negb okty then inr (Corrupt 3, r1) else
        if remaining r1 <? len then inr (Corrupt 4, r1) else
        let d := firstn len (skipn (bo r1) (buf r1)) in
        if negb (beq_l (crc ty d) c) then inr (Corrupt 5, r1) else
        let r2 := {| file := file r; buf := buf r; bo := bo r1 + len; eof := eof r |} in
        if (Nat.eqb ty TLast || Nat.eqb ty TFull) then inl (acc ++ d, r2) else next f r2 (acc ++ d) (S idx)
  end.
Fixpoint read_loop (fuel : nat) (r : rd) : list (list nat) * tail :=
  match fuel with O => ([], Corrupt 98) | S f =>
    match next 200 r [] 0 with
    | inl (p, r1) => let '(ps, t) := read_loop f r1 in (p :: ps, t)
    | inr (t, _) => ([], t)
    end end.
Definition read_all (bytes : list nat) := read_loop 60 {| file := bytes; buf := []; bo := 0; eof := false |}.

(* ---- statements ---- *)
Fixpoint beq_ll (a b : list (list nat)) := match a, b with [], [] => true | x :: r, y :: q => beq_l x y && beq_ll r q | _, _ => false end.
Definition is_eof t := match t with Eof => true | _ => false end.
Definition payload (n tag : nat) : list nat := map (fun i => (tag * 7 + i) mod 251 + 1) (seq 0 n).
(* record-length sequences: lengths from a small set, 1..3 records *)
Definition lens := [1; 2; 3; 8; 9; 10; 11; 20].
Fixpoint seqs (n : nat) : list (list nat) := match n with O => [[]] | S m => flat_map (fun l => map (fun x => x :: l) lens) (seqs m) end.
Definition mk_recs (ls : list nat) : list (list nat) := map (fun '(i, n) => payload n i) (combine (seq 1 (length ls)) ls).
(* S1: round trip, single session and a split after the first record *)
Definition s1 (ls : list nat) : bool :=
  let ps := mk_recs ls in
  let '(bytes, _) := write_all 0 ps in
  let '(got, t) := read_all bytes in
  beq_ll got ps && is_eof t &&
  match ps with [] => true | p :: r =>
    let '(b1, _) := write_all 0 [p] in
    let '(b2, _) := write_all (length b1 mod B) r in
    let '(g2, t2) := read_all (b1 ++ b2) in beq_ll g2 ps && is_eof t2 end.
Eval vm_compute in (forallb s1 (seqs 1 ++ seqs 2 ++ seqs 3)).

(* S2: truncation prefix.  boundaries of whole records computed by writing prefixes *)
Fixpoint prefix_ends (off : nat) (pos : nat) (ps : list (list nat)) : list nat :=
  match ps with [] => [] | p :: r => let '(a, o1) := write_record off p in (pos + length a) :: prefix_ends o1 (pos + length a) r end.
Fixpoint is_prefix (a b : list (list nat)) := match a, b with [], _ => true | x :: r, y :: q => beq_l x y && is_prefix r q | _, _ => false end.
Definition count_le (n : nat) (ends : list nat) := length (filter (fun e => e <=? n) ends).
Definition s2 (ls : list nat) : list (list nat * nat) :=
  let ps := mk_recs ls in let '(bytes, _) := write_all 0 ps in let ends := prefix_ends 0 0 ps in
  flat_map (fun n => let '(got, t) := read_all (firstn n bytes) in
                     if is_prefix got ps && (count_le n ends <=? length got) then [] else [(ls, n)]) (seq 0 (S (length bytes))).
Eval vm_compute in (length (flat_map s2 (seqs 1 ++ seqs 2 ++ seqs 3))).

(* S3: append after reopening a truncated file WITHOUT repair (reader said Eof): are new records delivered? *)
Definition newrec := payload 5 9.
Definition s3 (ls : list nat) : list (list nat * nat * nat) :=
  let ps := mk_recs ls in let '(bytes, _) := write_all 0 ps in let ends := prefix_ends 0 0 ps in
  flat_map (fun n =>
     let f1 := firstn n bytes in
     let '(got, t) := read_all f1 in
     if is_eof t then
       let '(nb, _) := write_record (n mod B) newrec in
       let '(got2, t2) := read_all (f1 ++ nb) in
       if beq_ll got2 (got ++ [newrec]) && is_eof t2 then [] else [(ls, n, n - (match filter (fun e => e <=? n) ends with [] => 0 | l => last l 0 end))]
     else []) (seq 0 (S (length bytes))).
Definition r3 := flat_map s3 (seqs 1 ++ seqs 2).
Eval vm_compute in (length r3).
(* classify the failing cut points: distance from the last whole-record end, and whether it is a fragment boundary *)
Eval vm_compute in firstn 30 r3.
Definition dists := nodup Nat.eq_dec (map (fun x => snd x) r3).
Eval vm_compute in dists.
Eval vm_compute in firstn 12 (filter (fun x => 7 <=? snd x) r3).
(* how many cuts in total were Eof-without-repair, for scale *)
