// Scratch probes (design phase only; not part of /repo or /verif).
use std::path::PathBuf;
use std::sync::Arc;

use tempdir::TempDir;

use crate::compaction::leveled::Strategy;
use crate::{LSMIterator, Options, Tree, TreeBuilder};

fn td() -> TempDir {
	TempDir::new("probe").unwrap()
}

fn mk(path: PathBuf, f: impl FnOnce(&mut Options)) -> Arc<Options> {
	let mut o = Options {
		path,
		..Default::default()
	};
	f(&mut o);
	Arc::new(o)
}

async fn put(tree: &Tree, k: &[u8], v: &[u8]) {
	let mut tx = tree.begin().unwrap();
	tx.set(k, v).unwrap();
	tx.commit().await.unwrap();
}
async fn del(tree: &Tree, k: &[u8]) {
	let mut tx = tree.begin().unwrap();
	tx.delete(k).unwrap();
	tx.commit().await.unwrap();
}

#[tokio::test]
async fn p01_tracker_set_semantics() {
	let d = td();
	let tree = Tree::new(mk(d.path().to_path_buf(), |_| {})).unwrap();
	put(&tree, b"k", b"v1").await;
	let r1 = tree.begin().unwrap();
	let r2 = tree.begin().unwrap();
	println!("PROBE p01 before: {:?}", tree.core.inner.snapshot_tracker.get_all_snapshots());
	drop(r1);
	println!("PROBE p01 after drop r1: {:?}", tree.core.inner.snapshot_tracker.get_all_snapshots());
	let _ = r2.get(b"k").unwrap();
}

#[tokio::test]
async fn p02_range_unregisters() {
	let d = td();
	let tree = Tree::new(mk(d.path().to_path_buf(), |_| {})).unwrap();
	put(&tree, b"k", b"v1").await;
	let r = tree.begin().unwrap();
	println!("PROBE p02 before: {:?}", tree.core.inner.snapshot_tracker.get_all_snapshots());
	{
		let mut it = r.range(b"a".as_slice(), b"z".as_slice()).unwrap();
		it.seek_first().unwrap();
	}
	println!("PROBE p02 after range: {:?}", tree.core.inner.snapshot_tracker.get_all_snapshots());
}

#[tokio::test]
async fn p03_bottom_tombstone_vs_reader() {
	let d = td();
	let tree = Tree::new(mk(d.path().to_path_buf(), |o| {
		o.level_count = 2;
		o.level0_max_files = 1;
	}))
	.unwrap();
	put(&tree, b"k", b"v1").await;
	let reader = tree.begin().unwrap();
	println!("PROBE p03 reader sees before: {:?}", reader.get(b"k").unwrap());
	del(&tree, b"k").await;
	tree.flush().unwrap();
	let strategy = Arc::new(Strategy::from_options(Arc::clone(&tree.core.inner.opts)));
	tree.compact(strategy).unwrap();
	println!("PROBE p03 reader sees after compaction: {:?}", reader.get(b"k").unwrap());
	drop(reader);
	tree.close().await.unwrap();
	drop(tree);
	let r = Tree::new(mk(d.path().to_path_buf(), |o| {
		o.level_count = 2;
	}));
	println!("PROBE p03/p06 reopen after all-dropped compaction: {:?}", r.as_ref().map(|_| ()).map_err(|e| e.to_string()));
}

#[tokio::test]
async fn p04_versioning_hard_delete_barrier() {
	let d = td();
	let tree = Tree::new(mk(d.path().to_path_buf(), |o| {
		o.level_count = 3;
		o.level0_max_files = 1;
		o.enable_versioning = true;
		o.enable_vlog = true;
		o.vlog_value_threshold = 0;
	}))
	.unwrap();
	{
		let mut tx = tree.begin().unwrap();
		tx.set_at(b"k", b"v1", 10).unwrap();
		tx.commit().await.unwrap();
	}
	{
		let mut tx = tree.begin().unwrap();
		tx.delete_with_options(b"k", &crate::WriteOptions::default().with_timestamp(Some(20))).unwrap();
		tx.commit().await.unwrap();
	}
	{
		let mut tx = tree.begin().unwrap();
		tx.set_at(b"k", b"v3", 30).unwrap();
		tx.commit().await.unwrap();
	}
	println!("PROBE p04 snapshots before compaction {:?}", tree.core.inner.snapshot_tracker.get_all_snapshots());
	let hist = |tree: &Tree| {
		let tx = tree.begin().unwrap();
		let mut it = tx.history(b"a".as_slice(), b"z".as_slice()).unwrap();
		let mut out = vec![];
		it.seek_first().unwrap();
		while it.valid() {
			out.push((it.key().timestamp(), it.value().unwrap()));
			it.next().unwrap();
		}
		let g = tx.get_at(b"k", 15).unwrap();
		(out, g)
	};
	println!("PROBE p04 before flush: {:?}", hist(&tree));
	tree.flush().unwrap();
	println!("PROBE p04 after flush: {:?}", hist(&tree));
	let strategy = Arc::new(Strategy::from_options(Arc::clone(&tree.core.inner.opts)));
	tree.compact(strategy).unwrap();
	println!("PROBE p04 after compaction: {:?}", hist(&tree));
}

#[tokio::test]
async fn p05_versioning_replace_drops_newer() {
	let d = td();
	let tree = Tree::new(mk(d.path().to_path_buf(), |o| {
		o.level_count = 3;
		o.level0_max_files = 1;
		o.enable_versioning = true;
		o.enable_vlog = true;
		o.vlog_value_threshold = 0;
	}))
	.unwrap();
	{
		let mut tx = tree.begin().unwrap();
		tx.set_at(b"k", b"v1", 10).unwrap();
		tx.commit().await.unwrap();
	}
	{
		let mut tx = tree.begin().unwrap();
		tx.replace(b"k", b"r2").unwrap();
		tx.commit().await.unwrap();
	}
	put(&tree, b"k", b"v3").await;
	put(&tree, b"k", b"v4").await;
	let hist = |tree: &Tree| {
		let tx = tree.begin().unwrap();
		let mut it = tx.history(b"a".as_slice(), b"z".as_slice()).unwrap();
		let mut out = vec![];
		it.seek_first().unwrap();
		while it.valid() {
			out.push(String::from_utf8(it.value().unwrap()).unwrap());
			it.next().unwrap();
		}
		out
	};
	println!("PROBE p05 before flush: {:?}", hist(&tree));
	tree.flush().unwrap();
	let strategy = Arc::new(Strategy::from_options(Arc::clone(&tree.core.inner.opts)));
	tree.compact(strategy).unwrap();
	println!("PROBE p05 after compaction: {:?}", hist(&tree));
}

#[tokio::test]
async fn p07_reopen_descending_l1() {
	let d = td();
	let o = |o: &mut Options| {
		o.level_count = 3;
		o.level0_max_files = 1;
	};
	let tree = Tree::new(mk(d.path().to_path_buf(), o)).unwrap();
	put(&tree, b"m", b"1").await;
	tree.flush().unwrap();
	let strategy = Arc::new(Strategy::from_options(Arc::clone(&tree.core.inner.opts)));
	tree.compact(strategy.clone()).unwrap();
	put(&tree, b"a", b"2").await;
	tree.flush().unwrap();
	tree.compact(strategy).unwrap();
	{
		let m = tree.core.inner.level_manifest.read().unwrap();
		for (i, l) in m.levels.get_levels().iter().enumerate() {
			println!(
				"PROBE p07 level {} tables {:?}",
				i,
				l.tables.iter().map(|t| (t.id, t.meta.smallest_seq_num, t.meta.largest_seq_num)).collect::<Vec<_>>()
			);
		}
	}
	tree.close().await.unwrap();
	drop(tree);
	let r = Tree::new(mk(d.path().to_path_buf(), o));
	println!("PROBE p07 reopen: {:?}", r.as_ref().map(|_| ()).map_err(|e| e.to_string()));
}

#[tokio::test]
async fn p08_range_direction_switch() {
	let d = td();
	let tree = Tree::new(mk(d.path().to_path_buf(), |_| {})).unwrap();
	put(&tree, b"b", b"snap").await;
	let mut tx = tree.begin().unwrap();
	tx.set(b"a", b"ws").unwrap();
	tx.set(b"c", b"ws").unwrap();
	let mut it = tx.range(b"a".as_slice(), b"z".as_slice()).unwrap();
	let mut seen = vec![];
	it.seek_last().unwrap();
	seen.push(it.key().user_key().to_vec());
	it.prev().unwrap();
	seen.push(it.key().user_key().to_vec());
	it.prev().unwrap();
	seen.push(it.key().user_key().to_vec());
	let ok = it.next().unwrap();
	println!(
		"PROBE p08 backward {:?} then next -> valid={} key={:?}",
		seen.iter().map(|k| String::from_utf8_lossy(k).to_string()).collect::<Vec<_>>(),
		ok,
		if it.valid() { Some(String::from_utf8_lossy(it.key().user_key()).to_string()) } else { None }
	);
}

#[tokio::test]
async fn p09_inverted_range() {
	let d = td();
	let tree = Tree::new(mk(d.path().to_path_buf(), |_| {})).unwrap();
	let mut tx = tree.begin().unwrap();
	tx.set(b"m", b"ws").unwrap();
	let r = std::panic::catch_unwind(std::panic::AssertUnwindSafe(|| {
		let mut it = tx.range(b"z".as_slice(), b"a".as_slice()).unwrap();
		it.seek_first().unwrap()
	}));
	println!("PROBE p09 inverted range: {:?}", r.map_err(|_| "PANIC"));
}

#[tokio::test(flavor = "multi_thread", worker_threads = 4)]
async fn p10_arena_full_rotation_durability() {
	let d = td();
	let o = |o: &mut Options| {
		o.max_memtable_size = 64 * 1024;
		o.flush_on_close = false;
	};
	let tree = Tree::new(mk(d.path().to_path_buf(), o)).unwrap();
	let val = vec![7u8; 1000];
	let mut acked = vec![];
	for i in 0..90u32 {
		let k = format!("key{:05}", i).into_bytes();
		put(&tree, &k, &val).await;
		acked.push(k);
		let imm = tree.core.inner.immutable_count();
		let l0 = tree.core.inner.l0_file_count();
		if imm > 0 || l0 > 0 {
			// a rotation happened: wait for background flush + wal cleanup, then stop
			for _ in 0..100 {
				if tree.core.inner.immutable_count() == 0 {
					break;
				}
				tokio::time::sleep(std::time::Duration::from_millis(20)).await;
			}
			tokio::time::sleep(std::time::Duration::from_millis(300)).await;
			break;
		}
	}
	println!(
		"PROBE p10 acked={} wal segments={:?} log_number={}",
		acked.len(),
		crate::wal::list_segment_ids(&d.path().join("wal"), Some("wal")).unwrap(),
		tree.core.inner.level_manifest.read().unwrap().get_log_number()
	);
	tree.close().await.unwrap();
	drop(tree);
	let tree = Tree::new(mk(d.path().to_path_buf(), o)).unwrap();
	let tx = tree.begin().unwrap();
	let missing: Vec<_> = acked
		.iter()
		.filter(|k| tx.get(k.as_slice()).unwrap().is_none())
		.map(|k| String::from_utf8_lossy(k).to_string())
		.collect();
	println!("PROBE p10 missing after reopen: {:?}", missing);
}

#[tokio::test]
async fn p12_repair_then_commit_lost() {
	let d = td();
	let o = |o: &mut Options| {
		o.flush_on_close = false;
	};
	{
		let tree = Tree::new(mk(d.path().to_path_buf(), o)).unwrap();
		put(&tree, b"a", b"1").await;
		put(&tree, b"b", b"2").await;
		tree.close().await.unwrap();
	}
	// tear the tail: chop 3 bytes off the last record (mid-payload) -> "exceeds block boundary"
	let wal_dir = d.path().join("wal");
	let ids = crate::wal::list_segment_ids(&wal_dir, Some("wal")).unwrap();
	let seg = wal_dir.join(format!("{:020}.wal", ids.last().unwrap()));
	let len = std::fs::metadata(&seg).unwrap().len();
	let f = std::fs::OpenOptions::new().write(true).open(&seg).unwrap();
	f.set_len(len - 3).unwrap();
	drop(f);
	{
		let tree = Tree::new(mk(d.path().to_path_buf(), o)).unwrap();
		let tx = tree.begin().unwrap();
		println!("PROBE p12 after torn reopen: a={:?} b={:?}", tx.get(b"a").unwrap(), tx.get(b"b").unwrap());
		drop(tx);
		put(&tree, b"c", b"3").await;
		tree.close().await.unwrap();
	}
	{
		let tree = Tree::new(mk(d.path().to_path_buf(), o)).unwrap();
		let tx = tree.begin().unwrap();
		println!(
			"PROBE p12 after second reopen: a={:?} c={:?}",
			tx.get(b"a").unwrap(),
			tx.get(b"c").unwrap()
		);
	}
}

#[tokio::test]
async fn p11_partial_header_then_commit_lost() {
	let d = td();
	let o = |o: &mut Options| {
		o.flush_on_close = false;
	};
	{
		let tree = Tree::new(mk(d.path().to_path_buf(), o)).unwrap();
		put(&tree, b"a", b"1").await;
		tree.close().await.unwrap();
	}
	// append 3 garbage bytes = torn header of a next record (power-loss model)
	let wal_dir = d.path().join("wal");
	let ids = crate::wal::list_segment_ids(&wal_dir, Some("wal")).unwrap();
	let seg = wal_dir.join(format!("{:020}.wal", ids.last().unwrap()));
	{
		use std::io::Write;
		let mut f = std::fs::OpenOptions::new().append(true).open(&seg).unwrap();
		f.write_all(&[0xde, 0xad, 0xbe]).unwrap();
	}
	{
		let tree = Tree::new(mk(d.path().to_path_buf(), o)).unwrap();
		put(&tree, b"c", b"3").await;
		tree.close().await.unwrap();
	}
	{
		let r = Tree::new(mk(d.path().to_path_buf(), o));
		match r {
			Ok(tree) => {
				let tx = tree.begin().unwrap();
				println!(
					"PROBE p11 after second reopen: a={:?} c={:?}",
					tx.get(b"a").unwrap(),
					tx.get(b"c").unwrap()
				);
			}
			Err(e) => println!("PROBE p11 reopen error {e}"),
		}
	}
}

#[tokio::test]
async fn p13_lock_truncated_by_refused_open() {
	let d = td();
	let tree = Tree::new(mk(d.path().to_path_buf(), |_| {})).unwrap();
	let before = std::fs::read(d.path().join("LOCK")).unwrap();
	let r = TreeBuilder::new().with_path(d.path().to_path_buf()).build();
	let after = std::fs::read(d.path().join("LOCK")).unwrap();
	println!("PROBE p13 refused={} lock before={:?} after={:?}", r.is_err(), before, after);
	tree.close().await.unwrap();
}

#[tokio::test]
async fn p14_oracle_rollback_lost_update() {
	use crate::oracle::CommitOracle;
	let o = CommitOracle::new();
	// T2 commits k at seq 8 (T3 started at 5 and is still open)
	o.publish([b"k".as_slice()], 8, 1, 5);
	// T1 starts at 8, checks ok, publishes at 10, then fails and rolls back
	assert!(o.check([b"k".as_slice()], 8).is_ok());
	o.publish([b"k".as_slice()], 10, 1, 5);
	o.rollback([b"k".as_slice()], 10);
	// T3 (start 5) now commits k: must conflict with T2's commit at 8
	println!("PROBE p14 T3 check after rollback: {:?}", o.check([b"k".as_slice()], 5));
}

#[tokio::test]
async fn p15_restore_stale_cache() {
	let d = td();
	let cp = td();
	let o = |o: &mut Options| {
		o.level_count = 2;
	};
	let tree = Tree::new(mk(d.path().to_path_buf(), o)).unwrap();
	put(&tree, b"k1", b"old1").await;
	tree.flush().unwrap();
	tree.create_checkpoint(cp.path().join("cp")).unwrap();
	// after checkpoint: new table (id X) with k2=discarded; read it to cache its block
	put(&tree, b"k2", b"discarded").await;
	tree.flush().unwrap();
	{
		let tx = tree.begin().unwrap();
		println!("PROBE p15 pre-restore k2={:?}", tx.get(b"k2").unwrap().map(|v| String::from_utf8(v).unwrap()));
	}
	tree.restore_from_checkpoint(cp.path().join("cp")).unwrap();
	put(&tree, b"k2", b"newvalue!").await;
	tree.flush().unwrap();
	let tx = tree.begin().unwrap();
	println!(
		"PROBE p15 post-restore k1={:?} k2={:?}",
		tx.get(b"k1").map(|v| v.map(|v| String::from_utf8(v).unwrap())),
		tx.get(b"k2").map(|v| v.map(|v| String::from_utf8(v).unwrap()))
	);
}

#[tokio::test]
async fn p05b_versioning_open_snapshot_drops_history() {
	let d = td();
	let tree = Tree::new(mk(d.path().to_path_buf(), |o| {
		o.level_count = 3;
		o.level0_max_files = 1;
		o.enable_versioning = true;
		o.enable_vlog = true;
		o.vlog_value_threshold = 0;
	}))
	.unwrap();
	put(&tree, b"k", b"v1").await;
	put(&tree, b"k", b"v2").await;
	put(&tree, b"k", b"v3").await;
	let hist = |tree: &Tree| {
		let tx = tree.begin().unwrap();
		let mut it = tx.history(b"a".as_slice(), b"z".as_slice()).unwrap();
		let mut out = vec![];
		it.seek_first().unwrap();
		while it.valid() {
			out.push(String::from_utf8(it.value().unwrap()).unwrap());
			it.next().unwrap();
		}
		out
	};
	println!("PROBE p05b before: {:?}", hist(&tree));
	let unrelated_reader = tree.begin().unwrap();
	tree.flush().unwrap();
	let strategy = Arc::new(Strategy::from_options(Arc::clone(&tree.core.inner.opts)));
	tree.compact(strategy).unwrap();
	drop(unrelated_reader);
	println!("PROBE p05b after compaction with an open reader at latest: {:?}", hist(&tree));
}

#[tokio::test]
async fn p17_vlog_cleanup_vs_open_cursor() {
	let d = td();
	let tree = Tree::new(mk(d.path().to_path_buf(), |o| {
		o.level_count = 2;
		o.level0_max_files = 1;
		o.enable_vlog = true;
		o.vlog_value_threshold = 4;
		o.vlog_max_file_size = 64;
	}))
	.unwrap();
	put(&tree, b"a", &vec![1u8; 100]).await;
	tree.flush().unwrap();
	put(&tree, b"b", &vec![2u8; 100]).await;
	tree.flush().unwrap();
	let reader = tree.begin().unwrap();
	let mut it = reader.range(b"a".as_slice(), b"z".as_slice()).unwrap();
	it.seek_first().unwrap();
	println!("PROBE p17 cursor at {:?} len {:?}", String::from_utf8_lossy(it.key().user_key()).to_string(), it.value().map(|v| v.len()).map_err(|e| e.to_string()));
	// overwrite both keys, flush, compact: old vlog files become obsolete
	put(&tree, b"a", &vec![3u8; 100]).await;
	put(&tree, b"b", &vec![4u8; 100]).await;
	tree.flush().unwrap();
	let strategy = Arc::new(Strategy::from_options(Arc::clone(&tree.core.inner.opts)));
	tree.compact(strategy.clone()).unwrap();
	tree.compact(strategy).unwrap();
	println!("PROBE p17 vlog files now {:?}", std::fs::read_dir(d.path().join("vlog")).unwrap().map(|e| e.unwrap().file_name()).collect::<Vec<_>>());
	let r = it.next();
	println!("PROBE p17 cursor next -> {:?} valid={}", r.as_ref().map_err(|e| e.to_string()), it.valid());
	if it.valid() {
		println!("PROBE p17 cursor at {:?} value {:?}", String::from_utf8_lossy(it.key().user_key()).to_string(), it.value().map(|v| (v.len(), v[0])).map_err(|e| e.to_string()));
	}
	println!("PROBE p17 reader.get(b) = {:?}", reader.get(b"b").map(|v| v.map(|v| (v.len(), v[0]))).map_err(|e| e.to_string()));
}

#[tokio::test]
async fn p19_dangling_fragment_then_commit_lost() {
	let d = td();
	let o = |o: &mut Options| {
		o.flush_on_close = false;
	};
	{
		let tree = Tree::new(mk(d.path().to_path_buf(), o)).unwrap();
		put(&tree, b"a", b"1").await;
		put(&tree, b"big", &vec![9u8; 100_000]).await;
		tree.close().await.unwrap();
	}
	let wal_dir = d.path().join("wal");
	let ids = crate::wal::list_segment_ids(&wal_dir, Some("wal")).unwrap();
	let seg = wal_dir.join(format!("{:020}.wal", ids.last().unwrap()));
	let len = std::fs::metadata(&seg).unwrap().len();
	// process-crash between write() calls: file ends at a block boundary inside the big record
	let f = std::fs::OpenOptions::new().write(true).open(&seg).unwrap();
	f.set_len(2 * 32768).unwrap();
	drop(f);
	println!("PROBE p19 wal len {} -> {}", len, 2 * 32768);
	{
		let tree = Tree::new(mk(d.path().to_path_buf(), o)).unwrap();
		let tx = tree.begin().unwrap();
		println!("PROBE p19 first reopen a={:?} big={:?}", tx.get(b"a").unwrap(), tx.get(b"big").unwrap().map(|v| v.len()));
		drop(tx);
		put(&tree, b"c", b"3").await;
		tree.close().await.unwrap();
	}
	match Tree::new(mk(d.path().to_path_buf(), o)) {
		Ok(tree) => {
			let tx = tree.begin().unwrap();
			println!("PROBE p19 second reopen a={:?} c={:?}", tx.get(b"a").unwrap(), tx.get(b"c").unwrap());
		}
		Err(e) => println!("PROBE p19 second reopen error {e}"),
	}
}

#[tokio::test]
async fn p20_two_readers_lose_version() {
	// end-to-end consequence of p01: r2 loses its view after r1 is dropped and compaction runs
	let d = td();
	let tree = Tree::new(mk(d.path().to_path_buf(), |o| {
		o.level_count = 3;
		o.level0_max_files = 1;
	}))
	.unwrap();
	put(&tree, b"k", b"v1").await;
	let r1 = tree.begin().unwrap();
	let r2 = tree.begin().unwrap();
	put(&tree, b"k", b"v2").await;
	drop(r1);
	tree.flush().unwrap();
	let strategy = Arc::new(Strategy::from_options(Arc::clone(&tree.core.inner.opts)));
	tree.compact(strategy).unwrap();
	println!("PROBE p20 r2.get(k) = {:?}", r2.get(b"k").unwrap().map(|v| String::from_utf8(v).unwrap()));
}

#[tokio::test(flavor = "multi_thread", worker_threads = 4)]
async fn p21_batch_straddles_rotation_atomicity() {
	let d = td();
	let o = |o: &mut Options| {
		o.max_memtable_size = 64 * 1024;
		o.flush_on_close = false;
	};
	let tree = Tree::new(mk(d.path().to_path_buf(), o)).unwrap();
	let val = vec![7u8; 1000];
	for i in 0..45u32 {
		put(&tree, format!("pre{:05}", i).as_bytes(), &val).await;
	}
	println!("PROBE p21 after prefill: imm={} l0={}", tree.core.inner.immutable_count(), tree.core.inner.l0_file_count());
	let mut tx = tree.begin().unwrap();
	for i in 0..30u32 {
		tx.set(format!("txn{:05}", i).as_bytes(), &val).unwrap();
	}
	tx.commit().await.unwrap();
	for _ in 0..100 {
		if tree.core.inner.immutable_count() == 0 {
			break;
		}
		tokio::time::sleep(std::time::Duration::from_millis(20)).await;
	}
	tokio::time::sleep(std::time::Duration::from_millis(300)).await;
	println!(
		"PROBE p21 imm={} l0={} wal={:?} log_number={}",
		tree.core.inner.immutable_count(),
		tree.core.inner.l0_file_count(),
		crate::wal::list_segment_ids(&d.path().join("wal"), Some("wal")).unwrap(),
		tree.core.inner.level_manifest.read().unwrap().get_log_number()
	);
	tree.close().await.unwrap();
	drop(tree);
	let tree = Tree::new(mk(d.path().to_path_buf(), o)).unwrap();
	let tx = tree.begin().unwrap();
	let present = (0..30u32).filter(|i| tx.get(format!("txn{:05}", i).as_bytes()).unwrap().is_some()).count();
	println!("PROBE p21 after reopen: {} of 30 keys of the acknowledged transaction present", present);
}
