/* libverifshim.so — LD_PRELOAD recorder of file-system operations (engine E4/E5).
   Every operation on a path under $VERIF_SHIM_ROOT is appended to $VERIF_SHIM_LOG as one text
   line under one global order (a mutex serialises the log):
     O <fd> <flags> <path>          open (flags: c=create t=trunc a=append)
     W <fd> <offset|-1> <len> <hex> write / pwrite (offset -1 = at the descriptor's position / append)
     S <fd>                         fsync / fdatasync
     T <fd> <len>                   ftruncate
     R <old> <new>                  rename
     U <path>                       unlink
     D <path>                       mkdir          X <path>   rmdir
     C <fd>                         close          P <old> <new>  descriptor duplicated
     M <text>                       marker: a write to the path $VERIF_SHIM_ROOT/../MARK
   Fault injection (E5): $VERIF_SHIM_FAIL = "<n>:<kind>:<substr>[:sticky]" fails the n-th (1-based)
   matching data operation on a path containing <substr>; kind = eio | enospc | short<k> (write k
   bytes then return k) | shorterr<k> (the n-th matching write writes k bytes and returns k, the next
   matching write fails with ENOSPC — every later one if sticky: a disk that fills up inside a
   write) | fsync (fail fsync/fdatasync with EIO) | hold<ms> (no failure: the thread issuing the n-th
   matching write sleeps <ms> milliseconds BEFORE the write, outside the log mutex, so that other
   threads run first — a directed schedule). */
#define _GNU_SOURCE
#include <dlfcn.h>
#include <errno.h>
#include <fcntl.h>
#include <pthread.h>
#include <stdarg.h>
#include <stdio.h>
#include <stdlib.h>
#include <string.h>
#include <sys/stat.h>
#include <sys/types.h>
#include <sys/uio.h>
#include <unistd.h>

#define MAXFD 4096
static char *fdpath[MAXFD];
static int fdappend[MAXFD];
static pthread_mutex_t mu = PTHREAD_MUTEX_INITIALIZER;
static int logfd = -1;
static const char *root = NULL;
static size_t rootlen = 0;
static int inited = 0;

static int fail_n = 0, fail_sticky = 0, fail_count = 0, fail_short = -1, fail_then_err = 0;
static char fail_kind[32] = "", fail_sub[256] = "";
static int fail_hold = -1;   /* hold<ms>: milliseconds to sleep before the n-th matching write */

static ssize_t (*real_write)(int, const void *, size_t);
static int (*real_open64)(const char *, int, ...);
static int (*real_open)(const char *, int, ...);
static int (*real_openat)(int, const char *, int, ...);
static int (*real_openat64)(int, const char *, int, ...);
static int (*real_close)(int);
static int (*real_fsync)(int);
static int (*real_fdatasync)(int);
static int (*real_ftruncate64)(int, off64_t);
static int (*real_ftruncate)(int, off_t);
static int (*real_rename)(const char *, const char *);
static int (*real_unlink)(const char *);
static int (*real_unlinkat)(int, const char *, int);
static int (*real_mkdir)(const char *, mode_t);
static int (*real_rmdir)(const char *);
static ssize_t (*real_pwrite64)(int, const void *, size_t, off64_t);
static ssize_t (*real_writev)(int, const struct iovec *, int);

static void init(void) {
  if (inited) return;
  inited = 1;
  real_write = dlsym(RTLD_NEXT, "write");
  real_open64 = dlsym(RTLD_NEXT, "open64");
  real_open = dlsym(RTLD_NEXT, "open");
  real_openat = dlsym(RTLD_NEXT, "openat");
  real_openat64 = dlsym(RTLD_NEXT, "openat64");
  real_close = dlsym(RTLD_NEXT, "close");
  real_fsync = dlsym(RTLD_NEXT, "fsync");
  real_fdatasync = dlsym(RTLD_NEXT, "fdatasync");
  real_ftruncate64 = dlsym(RTLD_NEXT, "ftruncate64");
  real_ftruncate = dlsym(RTLD_NEXT, "ftruncate");
  real_rename = dlsym(RTLD_NEXT, "rename");
  real_unlink = dlsym(RTLD_NEXT, "unlink");
  real_unlinkat = dlsym(RTLD_NEXT, "unlinkat");
  real_mkdir = dlsym(RTLD_NEXT, "mkdir");
  real_rmdir = dlsym(RTLD_NEXT, "rmdir");
  real_pwrite64 = dlsym(RTLD_NEXT, "pwrite64");
  real_writev = dlsym(RTLD_NEXT, "writev");
  root = getenv("VERIF_SHIM_ROOT");
  if (root) rootlen = strlen(root);
  const char *lp = getenv("VERIF_SHIM_LOG");
  if (lp && real_open64) logfd = real_open64(lp, O_WRONLY | O_CREAT | O_APPEND, 0644);
  const char *f = getenv("VERIF_SHIM_FAIL");
  if (f) {
    char buf[512];
    strncpy(buf, f, sizeof buf - 1);
    buf[sizeof buf - 1] = 0;
    char *p1 = strtok(buf, ":"), *p2 = strtok(NULL, ":"), *p3 = strtok(NULL, ":"), *p4 = strtok(NULL, ":");
    if (p1 && p2 && p3) {
      fail_n = atoi(p1);
      strncpy(fail_kind, p2, sizeof fail_kind - 1);
      strncpy(fail_sub, p3, sizeof fail_sub - 1);
      fail_sticky = p4 && strcmp(p4, "sticky") == 0;
      if (strncmp(fail_kind, "shorterr", 8) == 0) { fail_short = atoi(fail_kind + 8); fail_then_err = 1; }
      else if (strncmp(fail_kind, "short", 5) == 0) fail_short = atoi(fail_kind + 5);
      if (strncmp(fail_kind, "hold", 4) == 0) fail_hold = atoi(fail_kind + 4);
    }
  }
}

static int tracked(const char *p) { return root && p && strncmp(p, root, rootlen) == 0; }
static int is_mark(const char *p) { size_t l = p ? strlen(p) : 0; return l >= 5 && strcmp(p + l - 5, "/MARK") == 0; }

static void logline(const char *s, size_t n) {
  if (logfd >= 0 && real_write) { ssize_t r = real_write(logfd, s, n); (void)r; }
}
static void logf_(const char *fmt, ...) {
  char buf[8192];
  va_list ap;
  va_start(ap, fmt);
  int n = vsnprintf(buf, sizeof buf, fmt, ap);
  va_end(ap);
  if (n > 0) logline(buf, (size_t)(n < (int)sizeof buf ? n : (int)sizeof buf - 1));
}

/* should this data operation fail? kind_is_sync: the operation is fsync/fdatasync */
static int should_fail(const char *path, int is_sync) {
  if (fail_n <= 0 || fail_hold >= 0 || !path || !strstr(path, fail_sub)) return 0;
  int want_sync = strcmp(fail_kind, "fsync") == 0;
  if (want_sync != is_sync) return 0;
  fail_count++;
  if (fail_then_err) {   /* 1 = short write, 2 = the error that follows it */
    if (fail_count == fail_n) return 1;
    if (fail_count == fail_n + 1 || (fail_sticky && fail_count > fail_n)) return 2;
    return 0;
  }
  if (fail_count == fail_n || (fail_sticky && fail_count > fail_n)) return 1;
  return 0;
}

static void remember(int fd, const char *path, int flags) {
  if (fd < 0 || fd >= MAXFD) return;
  free(fdpath[fd]);
  fdpath[fd] = NULL;
  if (tracked(path) || is_mark(path)) {
    fdpath[fd] = strdup(path);
    fdappend[fd] = (flags & O_APPEND) != 0;
    if (!is_mark(path))
      logf_("O %d %s%s%s %s\n", fd, (flags & O_CREAT) ? "c" : "-", (flags & O_TRUNC) ? "t" : "-", (flags & O_APPEND) ? "a" : "-", path);
  }
}

int open64(const char *path, int flags, ...) {
  init();
  mode_t m = 0;
  if (flags & (O_CREAT | O_TMPFILE)) { va_list ap; va_start(ap, flags); m = va_arg(ap, mode_t); va_end(ap); }
  pthread_mutex_lock(&mu);
  int fd = real_open64(path, flags, m);
  if (fd >= 0) remember(fd, path, flags);
  pthread_mutex_unlock(&mu);
  return fd;
}
int open(const char *path, int flags, ...) {
  init();
  mode_t m = 0;
  if (flags & (O_CREAT | O_TMPFILE)) { va_list ap; va_start(ap, flags); m = va_arg(ap, mode_t); va_end(ap); }
  pthread_mutex_lock(&mu);
  int fd = real_open(path, flags, m);
  if (fd >= 0) remember(fd, path, flags);
  pthread_mutex_unlock(&mu);
  return fd;
}
int openat(int dirfd, const char *path, int flags, ...) {
  init();
  mode_t m = 0;
  if (flags & (O_CREAT | O_TMPFILE)) { va_list ap; va_start(ap, flags); m = va_arg(ap, mode_t); va_end(ap); }
  pthread_mutex_lock(&mu);
  int fd = real_openat(dirfd, path, flags, m);
  if (fd >= 0 && dirfd == AT_FDCWD) remember(fd, path, flags);
  pthread_mutex_unlock(&mu);
  return fd;
}
int openat64(int dirfd, const char *path, int flags, ...) {
  init();
  mode_t m = 0;
  if (flags & (O_CREAT | O_TMPFILE)) { va_list ap; va_start(ap, flags); m = va_arg(ap, mode_t); va_end(ap); }
  pthread_mutex_lock(&mu);
  int fd = real_openat64(dirfd, path, flags, m);
  if (fd >= 0 && dirfd == AT_FDCWD) remember(fd, path, flags);
  pthread_mutex_unlock(&mu);
  return fd;
}

static void log_write(int fd, long long off, const void *buf, size_t n) {
  static const char hx[] = "0123456789abcdef";
  size_t cap = n * 2 + 64;
  char *line = malloc(cap);
  if (!line) return;
  int k = snprintf(line, cap, "W %d %lld %zu ", fd, off, n);
  const unsigned char *b = buf;
  for (size_t i = 0; i < n; i++) { line[k++] = hx[b[i] >> 4]; line[k++] = hx[b[i] & 15]; }
  line[k++] = '\n';
  logline(line, (size_t)k);
  free(line);
}

ssize_t write(int fd, const void *buf, size_t n) {
  init();
  if (fd < 0 || fd >= MAXFD || !fdpath[fd]) return real_write(fd, buf, n);
  if (fail_hold >= 0) {
    /* directed schedule: count the matching writes; the n-th one waits (outside the mutex), then proceeds */
    int wait = 0;
    pthread_mutex_lock(&mu);
    if (fdpath[fd] && !is_mark(fdpath[fd]) && strstr(fdpath[fd], fail_sub) && ++fail_count == fail_n) {
      wait = 1;
      logf_("H write fd=%d hold=%dms\n", fd, fail_hold);
    }
    pthread_mutex_unlock(&mu);
    if (wait) usleep((useconds_t)fail_hold * 1000);
  }
  pthread_mutex_lock(&mu);
  ssize_t r;
  int sf;
  if (is_mark(fdpath[fd])) {
    logline("M ", 2);
    logline(buf, n);
    r = (ssize_t)n;
  } else if ((sf = should_fail(fdpath[fd], 0)) != 0) {
    if (sf == 2) {
      errno = ENOSPC;
      r = -1;
      logf_("F write fd=%d errno=%d\n", fd, errno);
    } else if (fail_short >= 0) {
      size_t k = (size_t)fail_short < n ? (size_t)fail_short : n;
      r = k ? real_write(fd, buf, k) : 0;
      if (r > 0) log_write(fd, fdappend[fd] ? -1 : -2, buf, (size_t)r);
      if (k == 0) { errno = ENOSPC; r = -1; }
      logf_("F write fd=%d short=%zd\n", fd, r);
    } else {
      errno = strcmp(fail_kind, "enospc") == 0 ? ENOSPC : EIO;
      r = -1;
      logf_("F write fd=%d errno=%d\n", fd, errno);
    }
  } else {
    r = real_write(fd, buf, n);
    if (r > 0) log_write(fd, fdappend[fd] ? -1 : -2, buf, (size_t)r);
  }
  pthread_mutex_unlock(&mu);
  return r;
}
ssize_t pwrite64(int fd, const void *buf, size_t n, off64_t off) {
  init();
  if (fd < 0 || fd >= MAXFD || !fdpath[fd]) return real_pwrite64(fd, buf, n, off);
  pthread_mutex_lock(&mu);
  ssize_t r;
  if (should_fail(fdpath[fd], 0)) { errno = strcmp(fail_kind, "enospc") == 0 ? ENOSPC : EIO; r = -1; logf_("F pwrite fd=%d\n", fd); }
  else { r = real_pwrite64(fd, buf, n, off); if (r > 0) log_write(fd, (long long)off, buf, (size_t)r); }
  pthread_mutex_unlock(&mu);
  return r;
}
ssize_t writev(int fd, const struct iovec *iov, int cnt) {
  init();
  if (fd < 0 || fd >= MAXFD || !fdpath[fd]) return real_writev(fd, iov, cnt);
  /* degrade to sequential writes through our own write() so that they are logged */
  ssize_t total = 0;
  for (int i = 0; i < cnt; i++) {
    if (iov[i].iov_len == 0) continue;
    ssize_t r = write(fd, iov[i].iov_base, iov[i].iov_len);
    if (r < 0) return total ? total : r;
    total += r;
    if ((size_t)r < iov[i].iov_len) break;
  }
  return total;
}
static int do_sync(int fd, int (*f)(int)) {
  init();
  if (fd < 0 || fd >= MAXFD || !fdpath[fd]) return f(fd);
  pthread_mutex_lock(&mu);
  int r;
  if (should_fail(fdpath[fd], 1)) { errno = EIO; r = -1; logf_("F fsync fd=%d\n", fd); }
  else { r = f(fd); if (r == 0) logf_("S %d\n", fd); }
  pthread_mutex_unlock(&mu);
  return r;
}
int fsync(int fd) { init(); return do_sync(fd, real_fsync); }
int fdatasync(int fd) { init(); return do_sync(fd, real_fdatasync); }
int ftruncate64(int fd, off64_t len) {
  init();
  pthread_mutex_lock(&mu);
  int r = real_ftruncate64(fd, len);
  if (r == 0 && fd >= 0 && fd < MAXFD && fdpath[fd]) logf_("T %d %lld\n", fd, (long long)len);
  pthread_mutex_unlock(&mu);
  return r;
}
int ftruncate(int fd, off_t len) {
  init();
  pthread_mutex_lock(&mu);
  int r = real_ftruncate(fd, len);
  if (r == 0 && fd >= 0 && fd < MAXFD && fdpath[fd]) logf_("T %d %lld\n", fd, (long long)len);
  pthread_mutex_unlock(&mu);
  return r;
}
int rename(const char *a, const char *b) {
  init();
  pthread_mutex_lock(&mu);
  int r = real_rename(a, b);
  if (r == 0 && (tracked(a) || tracked(b))) logf_("R %s %s\n", a, b);
  pthread_mutex_unlock(&mu);
  return r;
}
int unlink(const char *p) {
  init();
  pthread_mutex_lock(&mu);
  int r = real_unlink(p);
  if (r == 0 && tracked(p)) logf_("U %s\n", p);
  pthread_mutex_unlock(&mu);
  return r;
}
int unlinkat(int dirfd, const char *p, int flags) {
  init();
  pthread_mutex_lock(&mu);
  int r = real_unlinkat(dirfd, p, flags);
  if (r == 0 && dirfd == AT_FDCWD && tracked(p)) logf_("%c %s\n", (flags & AT_REMOVEDIR) ? 'X' : 'U', p);
  pthread_mutex_unlock(&mu);
  return r;
}
int mkdir(const char *p, mode_t m) {
  init();
  pthread_mutex_lock(&mu);
  int r = real_mkdir(p, m);
  if (r == 0 && tracked(p)) logf_("D %s\n", p);
  pthread_mutex_unlock(&mu);
  return r;
}
int rmdir(const char *p) {
  init();
  pthread_mutex_lock(&mu);
  int r = real_rmdir(p);
  if (r == 0 && tracked(p)) logf_("X %s\n", p);
  pthread_mutex_unlock(&mu);
  return r;
}
static void dup_map(int oldfd, int newfd) {
  if (oldfd < 0 || oldfd >= MAXFD || newfd < 0 || newfd >= MAXFD || !fdpath[oldfd]) return;
  free(fdpath[newfd]);
  fdpath[newfd] = strdup(fdpath[oldfd]);
  fdappend[newfd] = fdappend[oldfd];
  if (!is_mark(fdpath[newfd])) logf_("P %d %d\n", oldfd, newfd);
}
int fcntl(int fd, int cmd, ...) {
  init();
  static int (*real_fcntl)(int, int, ...);
  if (!real_fcntl) real_fcntl = dlsym(RTLD_NEXT, "fcntl");
  va_list ap; va_start(ap, cmd); void *arg = va_arg(ap, void *); va_end(ap);
  if (cmd == F_DUPFD || cmd == F_DUPFD_CLOEXEC) {
    pthread_mutex_lock(&mu);
    int r = real_fcntl(fd, cmd, arg);
    if (r >= 0) dup_map(fd, r);
    pthread_mutex_unlock(&mu);
    return r;
  }
  return real_fcntl(fd, cmd, arg);
}
int fcntl64(int fd, int cmd, ...) {
  init();
  static int (*real_fcntl64)(int, int, ...);
  if (!real_fcntl64) real_fcntl64 = dlsym(RTLD_NEXT, "fcntl64");
  if (!real_fcntl64) real_fcntl64 = dlsym(RTLD_NEXT, "fcntl");
  va_list ap; va_start(ap, cmd); void *arg = va_arg(ap, void *); va_end(ap);
  if (cmd == F_DUPFD || cmd == F_DUPFD_CLOEXEC) {
    pthread_mutex_lock(&mu);
    int r = real_fcntl64(fd, cmd, arg);
    if (r >= 0) dup_map(fd, r);
    pthread_mutex_unlock(&mu);
    return r;
  }
  return real_fcntl64(fd, cmd, arg);
}
int dup(int fd) {
  init();
  static int (*real_dup)(int);
  if (!real_dup) real_dup = dlsym(RTLD_NEXT, "dup");
  pthread_mutex_lock(&mu);
  int r = real_dup(fd);
  if (r >= 0) dup_map(fd, r);
  pthread_mutex_unlock(&mu);
  return r;
}
int close(int fd) {
  init();
  pthread_mutex_lock(&mu);
  if (fd >= 0 && fd < MAXFD && fdpath[fd]) {
    if (!is_mark(fdpath[fd])) logf_("C %d\n", fd);
    free(fdpath[fd]);
    fdpath[fd] = NULL;
  }
  int r = real_close(fd);
  pthread_mutex_unlock(&mu);
  return r;
}
